// The per-device event loop under a scripted world (C10, C11, C12, C20).
//
// The real do_remapping_loop_one_device runs against `World`, which implements
// the cfg(ellbur_totalmapper_verif) ScriptedDriver trait: edge-triggered
// readiness, per-device queues, a virtual clock that only World::poll advances,
// fault injection at the k-th driver call, and a boundary log of every call.
// An offline checker replays the log against the loop contract, using the real
// Mapper for key semantics.

use std::collections::VecDeque;
use std::time::Duration;
use serde_json::{json, Value};
use crate::keys::{KeyCode, Event, Layout, Mapping, Repeat};
use crate::keys::Event::{Pressed, Released};
use crate::key_transforms::{Mapper, ResultingRepeat};
use crate::remapping_loop::verif::{ScriptedDriver, ScriptedDevice, ScriptedPollResult, ScriptedNext, run_one_device};
use crate::rng::Rng;
use crate::common::*;
use crate::layouts::*;
use crate::vclock;

const MS: u64 = 1_000_000;

#[derive(Clone, Debug, PartialEq)]
pub enum KItem { Ev(Event), End }
#[derive(Clone, Debug, PartialEq)]
pub enum TItem { Sw(bool), End }

#[derive(Clone, Debug)]
pub struct Batch {
  pub delay_ns: u64,            // virtual time between the previous arrival and this one
  pub kb: Vec<KItem>,
  pub tab: Vec<TItem>,
  pub tablet_first: bool,       // order of the readiness flags when both devices are ready
  pub trickle: Vec<KItem>,      // arrive while the loop is draining this batch (readiness is re-armed)
  pub phantom_kb: bool,         // keyboard readiness reported although nothing is queued
  pub phantom_tab: bool,
  pub spurious: u8,             // time-outs reported before this arrival although no deadline passed
  pub interrupt: bool,          // one EINTR before this arrival
  pub extra_interrupts: u8      // further EINTRs right after it, with no device event in between (the loop then backs off with thread::sleep, which runs on the virtual clock)
}

#[derive(Clone, Debug)]
pub struct Schedule {
  pub batches: Vec<Batch>
}

#[derive(Clone, Debug, PartialEq)]
pub enum PollRes { Dev(Vec<ScriptedDevice>), TimedOut, Interrupted }

#[derive(Clone, Debug)]
pub enum Rec {
  Register,
  Poll { t: u64, timeout: Option<u64>, unread_k: usize, unread_t: usize, result: PollRes },
  NextK { t: u64, res: ScriptedNext<Event> },
  NextT { t: u64, res: ScriptedNext<bool> },
  Send { t: u64, events: Vec<Event> },
  Fault { call: usize, what: &'static str },
  Returned(Result<(), String>)
}

pub struct World {
  sched: Schedule,
  arrivals: Vec<u64>,          // absolute scheduled arrival instants
  next_batch: usize,
  cur_batch: Option<usize>,    // batch being drained (for trickle)
  trickle_done: bool,
  spurious_left: u8,
  interrupts_done: u8,
  kq: VecDeque<KItem>,
  tq: VecDeque<TItem>,
  k_ready: bool,
  t_ready: bool,
  tablet_first: bool,
  pub log: Vec<Rec>,
  pub calls: usize,
  fault_at: Option<usize>,
  faulted: bool,
  calls_after_fault: usize,
  lateness_ns: u64,
  idle_timeouts: usize,
  real_clock: bool,
  real_t0: u64,
  pub runaway: bool,
  timeouts_seen: usize,
  pub stall: Option<(usize, u64)>     // one-off stall: the n-th time-out is served this much late
}

// The text of the injected error, a function of the call index and the kind of call (so a replay injects the same
// text).  A quarter of the faults carry a bare marker; the others carry the text the REAL driver would produce for an
// OS error at that kind of call: one of the loop's own "... failed ..." format strings (mined from the string
// literals of remapping_loop.rs, preferring the one that names the kind of call) filled with nix's rendering of an
// errno value, with or without the marker in front.  A loop that treats some failures specially by their text
// (retrying on EAGAIN, ignoring EINTR, ...) meets those texts here.
pub fn fault_text(k: usize, what: &str) -> String {
  use nix::errno::Errno::*;
  const ERRNOS: [nix::errno::Errno; 28] = [EAGAIN, EINTR, EIO, ENODEV, EPIPE, ENOSPC, EBADF, EINVAL, ENOMEM, EFAULT, ENXIO, EPERM, EACCES, EBUSY, ENOENT,
    ETIMEDOUT, ECONNRESET, EOVERFLOW, EMSGSIZE, ENOTTY, EISDIR, EFBIG, EDQUOT, ENOBUFS, ESHUTDOWN, ENOTCONN, EDESTADDRREQ, EOPNOTSUPP];
  let marker = format!("injected fault #{}", k);
  if k % 4 == 0 { return marker; }
  static FORMATS: std::sync::OnceLock<Vec<String>> = std::sync::OnceLock::new();
  let formats = FORMATS.get_or_init(|| crate::dict::tokens(&["remapping_loop.rs"]).into_iter().filter(|t| t.contains("{}") && t.to_lowercase().contains("fail") && t.contains(' ')).collect());
  let h = hash64(&(k, 0xe77u32)) as usize;
  let errno = ERRNOS[h % ERRNOS.len()];
  let os = format!("{}", nix::Error::Sys(errno));
  let key = match what { "send" => "write", "next_keyboard" => "keyboard", "next_tablet" => "tablet", "poll" => "poll", _ => "" };
  let preferred: Vec<&String> = formats.iter().filter(|f| !key.is_empty() && f.contains(key)).collect();
  let fmt: String = if !preferred.is_empty() && (h / 64) % 4 != 0 { preferred[(h / 256) % preferred.len()].clone() } else if !formats.is_empty() { formats[(h / 256) % formats.len()].clone() } else { "{}".to_string() };
  let real = fmt.replace("{:?}", "\"/dev/input/event3\"").replacen("{}", &os, 1);
  if k % 4 == 1 { format!("{}: {}", marker, real) } else { real }
}

impl World {
  pub fn new(sched: Schedule, fault_at: Option<usize>, lateness_ns: u64, real_clock: bool) -> World {
    let mut arrivals = Vec::new();
    let mut t = 0u64;
    for b in &sched.batches { t += b.delay_ns; arrivals.push(t); }
    let (sp, _) = match sched.batches.first() { Some(b) => (b.spurious, b.interrupt), None => (0, false) };
    World {
      sched, arrivals, next_batch: 0, cur_batch: None, trickle_done: false, spurious_left: sp, interrupts_done: 0,
      kq: VecDeque::new(), tq: VecDeque::new(), k_ready: false, t_ready: false, tablet_first: false,
      log: Vec::new(), calls: 0, fault_at, faulted: false, calls_after_fault: 0, lateness_ns,
      idle_timeouts: 0, real_clock, real_t0: vclock::real_now_ns(), runaway: false, timeouts_seen: 0, stall: None
    }
  }

  fn now(&self) -> u64 {
    if self.real_clock { vclock::real_now_ns() - self.real_t0 } else { vclock::now_ns() }
  }

  // returns Some(err) if this call is the injected fault (or the world refuses to go on)
  fn account(&mut self, what: &'static str) -> Option<String> {
    let k = self.calls;
    self.calls += 1;
    if self.calls > 200_000 { self.runaway = true; return Some("world: runaway loop (200000 driver calls)".to_string()); }
    if self.faulted {
      self.calls_after_fault += 1;
      if self.calls_after_fault > 64 { self.runaway = true; return Some("world: more than 64 driver calls after the injected fault".to_string()); }
    }
    if self.fault_at == Some(k) {
      self.faulted = true;
      self.log.push(Rec::Fault { call: k, what });
      return Some(fault_text(k, what));
    }
    None
  }

  fn wait_until(&mut self, t: u64) {
    if self.real_clock {
      let now = self.now();
      if t > now { std::thread::sleep(Duration::from_nanos(t - now)); }
    }
    else { vclock::advance_to(t); }
  }
}

impl ScriptedDriver for World {
  fn register_poll(&mut self) -> Result<(), String> {
    if let Some(e) = self.account("register_poll") { return Err(e); }
    self.log.push(Rec::Register);
    Ok(())
  }

  fn poll(&mut self, timeout: Option<Duration>) -> Result<ScriptedPollResult, String> {
    if let Some(e) = self.account("poll") { return Err(e); }
    let t = self.now();
    let timeout_ns = timeout.map(|d| d.as_nanos() as u64);
    let (uk, ut) = (self.kq.len(), self.tq.len());
    let result: PollRes;
    if self.k_ready || self.t_ready {
      let mut v = vec![];
      if self.tablet_first { if self.t_ready { v.push(ScriptedDevice::Tablet); } if self.k_ready { v.push(ScriptedDevice::Keyboard); } }
      else { if self.k_ready { v.push(ScriptedDevice::Keyboard); } if self.t_ready { v.push(ScriptedDevice::Tablet); } }
      self.k_ready = false; self.t_ready = false;
      result = PollRes::Dev(v);
    }
    else if self.next_batch >= self.sched.batches.len() {
      // nothing will ever arrive again
      match timeout_ns {
        Some(d) => {
          self.idle_timeouts += 1;
          if self.idle_timeouts > 40 {
            self.runaway = true;
            self.log.push(Rec::Poll { t, timeout: timeout_ns, unread_k: uk, unread_t: ut, result: PollRes::TimedOut });
            return Err("world: schedule exhausted and the loop keeps polling".to_string());
          }
          self.wait_until(t + d + self.lateness_ns);
          result = PollRes::TimedOut;
        },
        None => {
          self.runaway = true;
          self.log.push(Rec::Poll { t, timeout: timeout_ns, unread_k: uk, unread_t: ut, result: PollRes::Interrupted });
          return Err("world: schedule exhausted and the loop would block forever".to_string());
        }
      }
    }
    else {
      let i = self.next_batch;
      let t_arr = self.arrivals[i];
      let deadline_first = match timeout_ns { Some(d) => t + d <= t_arr, None => false };
      if self.sched.batches[i].interrupt && self.interrupts_done < 1 + self.sched.batches[i].extra_interrupts {
        // the signal hits the first wait after the previous arrival, whatever its time-out
        self.interrupts_done += 1;
        let limit = match timeout_ns { Some(d) => std::cmp::min(t + d / 2, t_arr), None => t_arr };
        if limit > t { self.wait_until(t + (limit - t) / 2); }
        result = PollRes::Interrupted;
      }
      else if deadline_first {
        self.timeouts_seen += 1;
        // (read through a fully initialised pair: with `match self.stall { Some((n, ns)) if n == .. }` the optimiser loads
        // n before it tests the tag, which memcheck reports as a jump on an uninitialised value when the field is None)
        let (sn, sns) = self.stall.unwrap_or((usize::MAX, 0));
        let stall = if sn == self.timeouts_seen { sns } else { 0 };
        self.wait_until(t + timeout_ns.unwrap() + self.lateness_ns + stall);
        result = PollRes::TimedOut;
      }
      else if self.spurious_left > 0 {
        self.spurious_left -= 1;
        if t_arr > t { self.wait_until(t + (t_arr - t) / 3); }
        result = PollRes::TimedOut;
      }
      else {
        self.wait_until(t_arr);
        let b = self.sched.batches[i].clone();
        for x in &b.kb { self.kq.push_back(x.clone()); }
        for x in &b.tab { self.tq.push_back(x.clone()); }
        self.k_ready = !b.kb.is_empty() || b.phantom_kb;
        self.t_ready = !b.tab.is_empty() || b.phantom_tab;
        self.tablet_first = b.tablet_first;
        self.cur_batch = Some(i);
        self.trickle_done = false;
        self.next_batch += 1;
        self.interrupts_done = 0;
        self.spurious_left = if self.next_batch < self.sched.batches.len() { self.sched.batches[self.next_batch].spurious } else { 0 };
        let mut v = vec![];
        if self.tablet_first { if self.t_ready { v.push(ScriptedDevice::Tablet); } if self.k_ready { v.push(ScriptedDevice::Keyboard); } }
        else { if self.k_ready { v.push(ScriptedDevice::Keyboard); } if self.t_ready { v.push(ScriptedDevice::Tablet); } }
        self.k_ready = false; self.t_ready = false;
        if v.is_empty() { result = PollRes::TimedOut; }   // an empty batch is just a spurious wake-up
        else { result = PollRes::Dev(v); }
      }
    }
    self.log.push(Rec::Poll { t, timeout: timeout_ns, unread_k: uk, unread_t: ut, result: result.clone() });
    Ok(match result {
      PollRes::Dev(v) => ScriptedPollResult::DeviceEvent(v),
      PollRes::TimedOut => ScriptedPollResult::TimedOut,
      PollRes::Interrupted => ScriptedPollResult::Interrupted
    })
  }

  fn next_keyboard(&mut self) -> Result<ScriptedNext<Event>, String> {
    if let Some(e) = self.account("next_keyboard") { return Err(e); }
    if self.kq.is_empty() && !self.trickle_done {
      if let Some(i) = self.cur_batch {
        self.trickle_done = true;
        let tr = self.sched.batches[i].trickle.clone();
        if !tr.is_empty() {
          for x in tr { self.kq.push_back(x); }
          self.k_ready = true;   // new data re-arms edge-triggered readiness
        }
      }
    }
    let res = match self.kq.pop_front() {
      None => ScriptedNext::Busy,
      Some(KItem::End) => ScriptedNext::End,
      Some(KItem::Ev(e)) => ScriptedNext::One(e)
    };
    self.log.push(Rec::NextK { t: self.now(), res: res.clone() });
    Ok(res)
  }

  fn next_tablet(&mut self) -> Result<ScriptedNext<bool>, String> {
    if let Some(e) = self.account("next_tablet") { return Err(e); }
    let res = match self.tq.pop_front() {
      None => ScriptedNext::Busy,
      Some(TItem::End) => ScriptedNext::End,
      Some(TItem::Sw(b)) => ScriptedNext::One(b)
    };
    self.log.push(Rec::NextT { t: self.now(), res: res.clone() });
    Ok(res)
  }

  fn send(&mut self, evs: &Vec<Event>) -> Result<(), String> {
    if let Some(e) = self.account("send") { return Err(e); }
    self.log.push(Rec::Send { t: self.now(), events: evs.clone() });
    Ok(())
  }
}

pub struct RunResult {
  pub log: Vec<Rec>,
  pub calls: usize,
  pub runaway: bool,
  pub panicked: Option<String>
}

// One execution of the real per-device loop against a scripted world.
pub fn run_case(layout: &Layout, sched: &Schedule, fault_at: Option<usize>, lateness_ns: u64, real_clock: bool) -> RunResult {
  run_case_stall(layout, sched, fault_at, lateness_ns, real_clock, None)
}

pub fn run_case_stall(layout: &Layout, sched: &Schedule, fault_at: Option<usize>, lateness_ns: u64, real_clock: bool, stall: Option<(usize, u64)>) -> RunResult {
  let mut w = World::new(sched.clone(), fault_at, lateness_ns, real_clock);
  w.stall = stall;
  if !real_clock { vclock::enable(0); }
  let r = std::panic::catch_unwind(std::panic::AssertUnwindSafe(|| run_one_device(&mut w, layout.clone(), false)));
  if !real_clock { vclock::disable(); }
  let mut panicked = None;
  match r {
    Ok(res) => w.log.push(Rec::Returned(res)),
    Err(p) => {
      let msg = if let Some(s) = p.downcast_ref::<String>() { s.clone() } else if let Some(s) = p.downcast_ref::<&str>() { s.to_string() } else { "panic".to_string() };
      panicked = Some(msg);
    }
  }
  RunResult { calls: w.calls, runaway: w.runaway, log: w.log, panicked }
}

// ---------- offline checker ----------

#[derive(Clone, Debug)]
pub struct LV { pub property: &'static str, pub clause: &'static str, pub signature: String, pub message: String, pub index: usize }

#[derive(Default, Clone, Debug)]
pub struct LoopStats {
  pub polls: u64, pub sends: u64, pub step_sends: u64, pub chord_sends: u64, pub tablet_sends: u64,
  pub wakeups_with_2plus_events: u64, pub wakeups_both_devices: u64, pub spurious_timeouts: u64, pub interruptions: u64,
  pub phantom_wakeups: u64, pub trickle_wakeups: u64,
  pub ticks: u64, pub max_consecutive_ticks: u64, pub firings_with_3plus_ticks: u64, pub ticks_with_chord_key_held: u64,
  pub ticks_after_ignored_event: u64, pub cancellations_by_other_key: u64, pub catchup_polls: u64, pub timed_polls: u64,
  pub special_firings: u64, pub tablet_on: u64, pub tablet_off: u64, pub tablet_on_with_keys_held: u64, pub tablet_on_with_repeat_pending: u64,
  pub tablet_repeated: u64, pub kb_events_in_tablet_mode: u64, pub ticks_in_tablet_mode: u64, pub post_off_steps: u64,
  pub tablet_and_keyboard_same_wakeup: u64, pub end_keyboard: u64, pub end_tablet: u64, pub end_with_unread_behind: u64,
  pub kb_events: u64
}

struct Pending { keys: Vec<KeyCode>, next_wakeup: u64, interval_ms: i32, ticks: u64 }

fn prop_of_kind(kind: &str) -> &'static str {
  match kind { "step" => "C10", "chord" => "C11", "tablet" => "C12", _ => "C10" }
}

pub fn chord_events(keys: &[KeyCode]) -> Vec<Event> {
  let mut v: Vec<Event> = keys.iter().map(|k| Pressed(*k)).collect();
  for k in keys.iter().rev() { v.push(Released(*k)); }
  v
}

pub fn check_log(layout: &Layout, log: &[Rec], real_clock: bool) -> (Vec<LV>, LoopStats) {
  let mut out: Vec<LV> = Vec::new();
  let mut st = LoopStats::default();
  let mut refm = Mapper::for_layout(layout);
  let mut in_tablet = false;
  let mut pending: Option<Pending> = None;
  let mut held: Vec<KeyCode> = vec![];           // fold of everything sent
  let mut expect: Option<(&'static str, Vec<Event>)> = None;
  let mut optional_empty_chord = false;
  let mut last_kind: &'static str = "none";
  let mut after_end = false;
  let mut fault_seen = false;
  let mut check_empty_after_on = false;
  let mut events_this_wakeup = 0u64;
  let mut last_event_ignored = false;
  let mut post_off = false;
  let mut n_on_off_in_a_row: Option<bool> = None;

  macro_rules! v { ($p:expr, $c:expr, $s:expr, $m:expr, $i:expr) => { out.push(LV { property: $p, clause: $c, signature: $s.to_string(), message: $m, index: $i }) } }

  for (i, rec) in log.iter().enumerate() {
    // a send that was due must be the very next driver call
    if !matches!(rec, Rec::Send { .. } | Rec::Fault { .. }) {
      if let Some((kind, evs)) = expect.take() {
        if !fault_seen {
          v!(prop_of_kind(kind), "missing-send", format!("{}:missing-send:{}", prop_of_kind(kind), kind),
            format!("expected the loop to write [{}] ({}) before its next driver call, it did not", evs_str(&evs), kind), i);
        }
      }
      optional_empty_chord = false;
      if check_empty_after_on {
        check_empty_after_on = false;
        if !held.is_empty() && !fault_seen {
          v!("C12", "release-on-switch", "C12:keys-held-after-tablet-on",
            format!("tablet mode turned on but {:?} is still held on the virtual keyboard", held.iter().map(|k| key_name(*k)).collect::<Vec<_>>()), i);
        }
      }
    }
    match rec {
      Rec::Register => (),
      Rec::Poll { t, timeout, unread_k, unread_t, result } => {
        st.polls += 1;
        if after_end && !fault_seen { v!("C10", "stop-at-end", "C10:poll-after-end-of-device", "the loop polled again after the device reported it is gone".to_string(), i); }
        if (*unread_k > 0 || *unread_t > 0) && !fault_seen {
          v!("C10", "drain", "C10:waits-with-unread-events",
            format!("the loop went back to waiting with {} keyboard and {} tablet events it was notified about still unread", unread_k, unread_t), i);
        }
        if !fault_seen {
          match (&pending, timeout) {
            (None, None) => (),
            (None, Some(d)) => v!("C11", "timeout", "C11:timeout-while-no-repeat-pending", format!("poll with a {} ns time-out although no repeat is pending", d), i),
            (Some(p), None) => v!("C11", "timeout", "C11:no-timeout-while-repeat-pending", format!("poll without time-out although a repeat of {:?} is pending", p.keys), i),
            (Some(p), Some(d)) => {
              st.timed_polls += 1;
              if !real_clock {
                // overdue: any time-out of at most 1 ms; otherwise the remaining time, to the millisecond
                let want = if *t >= p.next_wakeup { MS } else { p.next_wakeup - *t };
                if *t >= p.next_wakeup { st.catchup_polls += 1; }
                let ok = if *t >= p.next_wakeup { *d <= MS } else { *d + MS >= want && *d <= want + MS };
                if !ok {
                  v!("C11", "timeout", "C11:timeout-value",
                    format!("poll at t={} ns with time-out {} ns; the pending repeat is due at {} ns, expected time-out {} ns (tick #{})", t, d, p.next_wakeup, want, p.ticks), i);
                }
              }
            }
          }
        }
        events_this_wakeup = 0;
        match result {
          PollRes::TimedOut => {
            match &mut pending {
              Some(p) => {
                if !in_tablet {
                  let filtered: Vec<KeyCode> = p.keys.iter().cloned().filter(|k| !held.contains(k)).collect();
                  if filtered.len() != p.keys.len() { st.ticks_with_chord_key_held += 1; }
                  if filtered.is_empty() { optional_empty_chord = true; }
                  else { expect = Some(("chord", chord_events(&filtered))); }
                  p.next_wakeup += (p.interval_ms.max(0) as u64) * MS;
                  p.ticks += 1;
                  st.ticks += 1;
                  if p.ticks > st.max_consecutive_ticks { st.max_consecutive_ticks = p.ticks; }
                  if p.ticks == 3 { st.firings_with_3plus_ticks += 1; }
                  if last_event_ignored { st.ticks_after_ignored_event += 1; }
                  last_kind = "chord";
                }
                else { pending = None; st.ticks_in_tablet_mode += 1; }
              },
              None => { st.spurious_timeouts += 1; }
            }
          },
          PollRes::Interrupted => { st.interruptions += 1; },
          PollRes::Dev(v) => {
            if v.len() >= 2 { st.wakeups_both_devices += 1; }
          }
        }
      },
      Rec::NextK { t, res } => {
        if after_end && !fault_seen { v!("C10", "stop-at-end", "C10:read-after-end-of-device", "the loop read the keyboard again after end-of-device".to_string(), i); }
        match res {
          ScriptedNext::One(e) => {
            st.kb_events += 1;
            events_this_wakeup += 1;
            if events_this_wakeup == 2 { st.wakeups_with_2plus_events += 1; }
            if !in_tablet {
              // does the mapper act on this event? (its own view of what is held, read through the hook)
              let held_by_mapper = refm.verif_snapshot().input_pressed_keys;
              let acted = match e { Pressed(k) => !held_by_mapper.contains(k), Released(k) => held_by_mapper.contains(k) };
              let r = refm.step(e.clone());
              if post_off { st.post_off_steps += 1; }
              if !r.events.is_empty() { expect = Some(("step", r.events.clone())); }
              last_kind = "step";
              match r.repeat {
                ResultingRepeat::Repeating { keys, delay_ms, interval_ms } => {
                  st.special_firings += 1;
                  pending = Some(Pending { keys, next_wakeup: *t + (delay_ms.max(0) as u64) * MS, interval_ms, ticks: 0 });
                  last_event_ignored = false;
                },
                // any key event the mapper acts on ends the repeat, whatever the step result says (the step result
                // itself is C09's subject); an ignored event leaves it alone
                _ if acted => {
                  if let Some(p) = &pending { if p.ticks > 0 { st.cancellations_by_other_key += 1; } }
                  pending = None;
                  last_event_ignored = false;
                },
                _ => { if pending.is_some() { last_event_ignored = true; } }
              }
            }
            else { st.kb_events_in_tablet_mode += 1; }
          },
          ScriptedNext::End => { after_end = true; st.end_keyboard += 1; },
          ScriptedNext::Busy => ()
        }
      },
      Rec::NextT { t: _, res } => {
        if after_end && !fault_seen { v!("C10", "stop-at-end", "C10:read-after-end-of-device", "the loop read the tablet switch again after end-of-device".to_string(), i); }
        match res {
          ScriptedNext::One(on) => {
            if *on { st.tablet_on += 1; } else { st.tablet_off += 1; }
            if n_on_off_in_a_row == Some(*on) { st.tablet_repeated += 1; }
            n_on_off_in_a_row = Some(*on);
            if events_this_wakeup > 0 { st.tablet_and_keyboard_same_wakeup += 1; }
            if *on && !held.is_empty() { st.tablet_on_with_keys_held += 1; }
            if *on && pending.is_some() { st.tablet_on_with_repeat_pending += 1; }
            in_tablet = *on;
            pending = None;
            let evs = refm.release_all();
            if !evs.is_empty() { expect = Some(("tablet", evs)); }
            last_kind = "tablet";
            if *on { check_empty_after_on = true; }
            else {
              // "mapping resumes as from a fresh start"
              refm = Mapper::for_layout(layout);
              post_off = true;
            }
          },
          ScriptedNext::End => { after_end = true; st.end_tablet += 1; },
          ScriptedNext::Busy => ()
        }
      },
      Rec::Send { t: _, events } => {
        st.sends += 1;
        if after_end && !fault_seen { v!("C10", "stop-at-end", "C10:write-after-end-of-device", format!("the loop wrote [{}] after the device reported it is gone", evs_str(events)), i); }
        if fault_seen {
          v!("C20", "no-write-after-failure", "C20:write-after-failure", format!("the loop wrote [{}] after a driver call had failed", evs_str(events)), i);
        }
        else {
          match expect.take() {
            Some((kind, evs)) => {
              if &evs == events {
                match kind { "step" => st.step_sends += 1, "chord" => st.chord_sends += 1, _ => st.tablet_sends += 1 }
              }
              else {
                let sig = if kind == "chord" {
                  let unf = pending.as_ref().map(|p| chord_events(&p.keys)).unwrap_or(vec![]);
                  if &unf == events { "C11:chord-includes-held-key".to_string() } else { "C11:wrong-chord".to_string() }
                } else { format!("{}:wrong-{}-write", prop_of_kind(kind), kind) };
                v!(prop_of_kind(kind), "payload", sig, format!("expected the loop to write [{}] ({}), it wrote [{}]; held before: {:?}", evs_str(&evs), kind, evs_str(events), held), i);
              }
            },
            None => {
              if optional_empty_chord && events.is_empty() {
                // an empty write for a chord whose keys are all held changes nothing on the device
              }
              else if optional_empty_chord {
                let unf = pending.as_ref().map(|p| chord_events(&p.keys)).unwrap_or(vec![]);
                let sig = if &unf == events { "C11:chord-includes-held-key" } else { "C11:wrong-chord" };
                v!("C11", "payload", sig, format!("every key of the repeat chord is already held, nothing should be pressed, the loop wrote [{}]; held before: {:?}", evs_str(events), held), i);
              }
              else if in_tablet {
                v!("C12", "silence", "C12:write-in-tablet-mode", format!("the loop wrote [{}] while the tablet-mode switch is on", evs_str(events)), i);
              }
              else {
                let p = match last_kind { "chord" => "C11", "tablet" => "C12", _ => "C10" };
                v!(p, "unexpected-write", format!("{}:unexpected-write-after-{}", p, last_kind), format!("the loop wrote [{}] although nothing was due", evs_str(events)), i);
              }
            }
          }
        }
        optional_empty_chord = false;
        for e in events {
          match e { Pressed(k) => set_insert(&mut held, *k), Released(k) => set_remove(&mut held, *k) }
        }
        if check_empty_after_on {
          check_empty_after_on = false;
          if !held.is_empty() && !fault_seen {
            v!("C12", "release-on-switch", "C12:keys-held-after-tablet-on",
              format!("tablet mode turned on but {:?} is still held on the virtual keyboard", held.iter().map(|k| key_name(*k)).collect::<Vec<_>>()), i);
          }
        }
      },
      Rec::Fault { .. } => { fault_seen = true; expect = None; },
      Rec::Returned(r) => {
        if !fault_seen {
          match r {
            Ok(()) => { if !after_end { v!("C10", "stop-at-end", "C10:returned-before-end-of-device", "the loop returned Ok although no device reported end".to_string(), i); } },
            Err(e) => v!("C10", "stop-at-end", "C10:returned-error-without-failure", format!("the loop returned Err({:?}) although no driver call failed", e), i)
          }
        }
      }
    }
  }
  (out, st)
}

// C20 oracle on a run with an injected fault
pub fn check_fault(log: &[Rec], k: usize, runaway: bool, panicked: &Option<String>) -> Vec<LV> {
  let mut out = Vec::new();
  let what: &str = log.iter().filter_map(|r| match r { Rec::Fault { what, .. } => Some(*what), _ => None }).next().unwrap_or("");
  let injected = fault_text(k, what);
  let mut seen = false;
  let mut after = 0usize;
  for (i, rec) in log.iter().enumerate() {
    match rec {
      Rec::Fault { .. } => seen = true,
      Rec::Returned(r) => {
        if seen {
          match r {
            Ok(()) => out.push(LV { property: "C20", clause: "returns-error", signature: "C20:failure-swallowed".to_string(),
              message: format!("driver call #{} failed but the loop returned Ok", k), index: i }),
            Err(e) => if !e.contains(&injected) {
              out.push(LV { property: "C20", clause: "returns-error", signature: "C20:wrong-error-returned".to_string(),
                message: format!("driver call #{} failed with {:?} but the loop returned Err({:?})", k, injected, e), index: i });
            }
          }
        }
      },
      Rec::Send { events, .. } => if seen {
        out.push(LV { property: "C20", clause: "no-write-after-failure", signature: "C20:write-after-failure".to_string(),
          message: format!("driver call #{} failed, afterwards the loop still wrote [{}]", k, evs_str(events)), index: i });
      },
      _ => if seen { after += 1; let _ = after; }
    }
  }
  if seen && runaway {
    out.push(LV { property: "C20", clause: "stops-at-once", signature: "C20:keeps-running-after-failure".to_string(),
      message: format!("driver call #{} failed and the loop made more than 64 further driver calls", k), index: log.len() });
  }
  if let Some(p) = panicked {
    out.push(LV { property: "C20", clause: "returns-error", signature: "C20:panic-instead-of-error".to_string(),
      message: format!("driver call #{} failed and the loop panicked: {}", k, p), index: log.len() });
  }
  out
}

// ---------- JSON for replays and samples ----------

fn kitem_json(x: &KItem) -> Value { match x { KItem::Ev(e) => json!(ev_str(e)), KItem::End => json!("END") } }
fn titem_json(x: &TItem) -> Value { match x { TItem::Sw(true) => json!("ON"), TItem::Sw(false) => json!("OFF"), TItem::End => json!("END") } }
fn kitem_parse(v: &Value) -> Option<KItem> { let s = v.as_str()?; if s == "END" { Some(KItem::End) } else { ev_parse(s).map(KItem::Ev) } }
fn titem_parse(v: &Value) -> Option<TItem> { match v.as_str()? { "ON" => Some(TItem::Sw(true)), "OFF" => Some(TItem::Sw(false)), "END" => Some(TItem::End), _ => None } }

pub fn schedule_json(s: &Schedule) -> Value {
  Value::Array(s.batches.iter().map(|b| json!({
    "delay_ns": b.delay_ns, "kb": b.kb.iter().map(kitem_json).collect::<Vec<_>>(), "tab": b.tab.iter().map(titem_json).collect::<Vec<_>>(),
    "tablet_first": b.tablet_first, "trickle": b.trickle.iter().map(kitem_json).collect::<Vec<_>>(),
    "phantom_kb": b.phantom_kb, "phantom_tab": b.phantom_tab, "spurious": b.spurious, "interrupt": b.interrupt, "extra_interrupts": b.extra_interrupts
  })).collect())
}

pub fn schedule_parse(v: &Value) -> Option<Schedule> {
  let mut batches = vec![];
  for b in v.as_array()? {
    let arr = |name: &str| -> Vec<Value> { b.get(name).and_then(|x| x.as_array()).cloned().unwrap_or(vec![]) };
    let mut kb = vec![]; for x in arr("kb") { kb.push(kitem_parse(&x)?); }
    let mut tab = vec![]; for x in arr("tab") { tab.push(titem_parse(&x)?); }
    let mut trickle = vec![]; for x in arr("trickle") { trickle.push(kitem_parse(&x)?); }
    batches.push(Batch {
      delay_ns: b.get("delay_ns").and_then(|x| x.as_u64()).unwrap_or(0), kb, tab, trickle,
      tablet_first: b.get("tablet_first").and_then(|x| x.as_bool()).unwrap_or(false),
      phantom_kb: b.get("phantom_kb").and_then(|x| x.as_bool()).unwrap_or(false),
      phantom_tab: b.get("phantom_tab").and_then(|x| x.as_bool()).unwrap_or(false),
      spurious: b.get("spurious").and_then(|x| x.as_u64()).unwrap_or(0) as u8,
      interrupt: b.get("interrupt").and_then(|x| x.as_bool()).unwrap_or(false),
      extra_interrupts: b.get("extra_interrupts").and_then(|x| x.as_u64()).unwrap_or(0) as u8
    });
  }
  Some(Schedule { batches })
}

pub fn log_json(log: &[Rec]) -> Value {
  Value::Array(log.iter().map(|r| match r {
    Rec::Register => json!("register_poll"),
    Rec::Poll { t, timeout, unread_k, unread_t, result } => json!({ "poll": { "t_ns": t, "timeout_ns": timeout, "unread": [unread_k, unread_t], "result": format!("{:?}", result) } }),
    Rec::NextK { t, res } => json!({ "next_keyboard": match res { ScriptedNext::One(e) => ev_str(e), ScriptedNext::Busy => "Busy".to_string(), ScriptedNext::End => "End".to_string() }, "t_ns": t }),
    Rec::NextT { t, res } => json!({ "next_tablet": match res { ScriptedNext::One(true) => "On", ScriptedNext::One(false) => "Off", ScriptedNext::Busy => "Busy", ScriptedNext::End => "End" }, "t_ns": t }),
    Rec::Send { t, events } => json!({ "send": evs_str(events), "t_ns": t }),
    Rec::Fault { call, what } => json!({ "fault": { "call": call, "what": what } }),
    Rec::Returned(r) => json!({ "returned": format!("{:?}", r) })
  }).collect())
}

fn replay_obj(prop: &str, case: &LayoutCase, sched: &Schedule, fault_at: Option<usize>, lateness_ns: u64) -> Value {
  replay_obj_stall(prop, case, sched, fault_at, lateness_ns, None)
}

fn replay_obj_stall(prop: &str, case: &LayoutCase, sched: &Schedule, fault_at: Option<usize>, lateness_ns: u64, stall: Option<(usize, u64)>) -> Value {
  json!({
    "stall": stall.map(|s| json!([s.0, s.1])),
    "engine": "loop", "property": prop, "source": case.source,
    "layout": serde_json::to_value(&case.layout).unwrap(), "layout_text": layout_str(&case.layout),
    "schedule": schedule_json(sched), "fault_at": fault_at, "lateness_ns": lateness_ns
  })
}

// ---------- generators ----------

pub fn gen_history(rng: &mut Rng, case: &LayoutCase, len: usize, n_max: usize) -> Vec<Event> {
  let mut held: Vec<KeyCode> = vec![];
  let mut res = vec![];
  let mut unwinding = false;
  let mut steps = 0;
  loop {
    if steps >= len { unwinding = true; }
    if unwinding && held.is_empty() { if steps >= len { break; } unwinding = false; }
    if steps > len + 40 { break; }
    if !unwinding && rng.chance(1, 20) { unwinding = true; }
    steps += 1;
    // ill-formed
    if rng.chance(1, 14) {
      if !held.is_empty() && rng.chance(1, 2) { res.push(Pressed(*rng.pick(&held))); continue; }
      let unheld: Vec<KeyCode> = case.alphabet.iter().cloned().filter(|k| !held.contains(k)).collect();
      if !unheld.is_empty() { res.push(Released(*rng.pick(&unheld))); continue; }
    }
    let press = if unwinding { false } else if held.len() >= n_max { false } else if held.is_empty() { true } else { rng.chance(3, 5) };
    if press {
      let unheld: Vec<KeyCode> = case.alphabet.iter().cloned().filter(|k| !held.contains(k)).collect();
      if !unheld.is_empty() { let k = *rng.pick(&unheld); held.push(k); res.push(Pressed(k)); continue; }
    }
    if !held.is_empty() { let k = *rng.pick(&held); set_remove(&mut held, k); res.push(Released(k)); }
  }
  res
}

pub struct SchedParams {
  pub tablet: usize,        // chance (out of 100) per batch of a tablet event
  pub timers: bool,         // use delays long enough for ticks
  pub oddities: bool,       // spurious time-outs, interruption, phantom readiness, trickle
  pub end_anywhere: bool
}

fn gen_delay(rng: &mut Rng, p: &SchedParams) -> u64 {
  if !p.timers { return 0; }
  match rng.below(10) {
    0..=2 => 0,
    3..=4 => (rng.below(100) as u64) * MS,
    5..=7 => (100 + rng.below(300) as u64) * MS + (rng.below(1000) as u64) * 1000,
    _ => (300 + rng.below(600) as u64) * MS
  }
}

pub fn gen_schedule(rng: &mut Rng, hist: &[Event], p: &SchedParams) -> Schedule {
  let mut batches: Vec<Batch> = vec![];
  let mut i = 0;
  let mut interrupted_since_device_event = true;   // never two interruptions without a device event in between; none before the first
  let mut tablet_state = false;
  while i < hist.len() {
    let n = match rng.below(200) { 0..=79 => 1, 80..=159 => rng.range(2, 3), 160..=189 => rng.range(4, 8), 190..=197 => rng.range(9, 24), 198 => rng.range(100, 300), _ => rng.range(1025, 1400) };
    let n = std::cmp::min(n, hist.len() - i);
    let mut kb: Vec<KItem> = hist[i..i + n].iter().map(|e| KItem::Ev(e.clone())).collect();
    i += n;
    let mut tab = vec![];
    if rng.below(100) < p.tablet {
      let k = match rng.below(8) { 0..=4 => 1, 5..=6 => 2, _ => 3 };
      for _ in 0..k {
        // mostly alternate, sometimes repeat the same state
        let next = if rng.chance(1, 5) { tablet_state } else { !tablet_state };
        tablet_state = next;
        tab.push(TItem::Sw(next));
      }
      // sometimes the switch fires alone, without keyboard data in the same wake-up
      if rng.chance(1, 3) { i -= n; kb.clear(); }
    }
    let mut trickle = vec![];
    if p.oddities && kb.len() >= 2 && rng.chance(1, 8) {
      let cut = rng.range(1, kb.len() - 1);
      trickle = kb.split_off(cut);
    }
    let mut interrupt = false;
    if p.oddities && !interrupted_since_device_event && rng.chance(1, 10) { interrupt = true; }
    // every batch delivers a device event (possibly phantom), which resets the loop's restart counter
    interrupted_since_device_event = interrupt;
    batches.push(Batch {
      delay_ns: gen_delay(rng, p), kb, tab, tablet_first: rng.chance(1, 2), trickle,
      phantom_kb: p.oddities && rng.chance(1, 20), phantom_tab: p.oddities && p.tablet > 0 && rng.chance(1, 30),
      spurious: if p.oddities && rng.chance(1, 10) { rng.range(1, 2) as u8 } else { 0 }, interrupt,
      extra_interrupts: if interrupt && rng.chance(1, 3) { rng.range(1, 3) as u8 } else { 0 }
    });
  }
  // end of device
  let mut end_batch = Batch { delay_ns: gen_delay(rng, p), kb: vec![KItem::End], tab: vec![], tablet_first: false, trickle: vec![],
    phantom_kb: false, phantom_tab: false, spurious: 0, interrupt: false, extra_interrupts: 0 };
  if p.end_anywhere && !batches.is_empty() {
    match rng.below(6) {
      0 => {
        // end in the middle of the history: everything queued behind it is never read
        let bi = rng.below(batches.len());
        let pos = rng.below(batches[bi].kb.len() + 1);
        batches[bi].kb.insert(pos, KItem::End);
        batches[bi].trickle.clear();
      },
      1 => { if p.tablet > 0 { end_batch.kb.clear(); end_batch.tab.push(TItem::End); } },
      2 => {
        // end at the tail of the last data batch (same wake-up as the last events)
        let last = batches.len() - 1;
        if batches[last].trickle.is_empty() { batches[last].kb.push(KItem::End); }
      },
      _ => ()
    }
  }
  batches.push(end_batch);
  // an interruption needs a preceding device event; make sure an empty batch never carries one
  for b in batches.iter_mut() { if b.kb.is_empty() && b.tab.is_empty() && !b.phantom_kb && !b.phantom_tab { b.interrupt = false; } }
  // a batch that delivers nothing resets nothing: forbid interrupts right after it too
  for j in 1..batches.len() {
    let prev_empty = batches[j - 1].kb.is_empty() && batches[j - 1].tab.is_empty() && !batches[j - 1].phantom_kb && !batches[j - 1].phantom_tab;
    if prev_empty || batches[j - 1].interrupt { batches[j].interrupt = false; }
    if !batches[j].interrupt { batches[j].extra_interrupts = 0; }
  }
  if let Some(b) = batches.first_mut() { b.interrupt = false; }
  Schedule { batches }
}

// the payloads the virtual keyboard must receive for a history when no timer ever fires and no tablet event occurs
pub fn expected_payloads(layout: &Layout, hist: &[Event]) -> Vec<Vec<Event>> {
  let mut m = Mapper::for_layout(layout);
  let mut res = vec![];
  for e in hist {
    let r = m.step(e.clone());
    if !r.events.is_empty() { res.push(r.events); }
  }
  res
}

pub fn sends_of(log: &[Rec]) -> Vec<Vec<Event>> {
  log.iter().filter_map(|r| match r { Rec::Send { events, .. } => Some(events.clone()), _ => None }).collect()
}

fn split_schedule(hist: &[Event], cuts: &[bool]) -> Schedule {
  // cuts[i] == true: a batch boundary after event i (i < n-1)
  let mut batches = vec![];
  let mut cur: Vec<KItem> = vec![];
  for (i, e) in hist.iter().enumerate() {
    cur.push(KItem::Ev(e.clone()));
    if i + 1 == hist.len() || cuts[i] {
      batches.push(Batch { delay_ns: 0, kb: std::mem::take(&mut cur), tab: vec![], tablet_first: false, trickle: vec![], phantom_kb: false, phantom_tab: false, spurious: 0, interrupt: false, extra_interrupts: 0 });
    }
  }
  batches.push(Batch { delay_ns: 0, kb: vec![KItem::End], tab: vec![], tablet_first: false, trickle: vec![], phantom_kb: false, phantom_tab: false, spurious: 0, interrupt: false, extra_interrupts: 0 });
  Schedule { batches }
}

fn add_stats(out: &mut ShardOut, st: &LoopStats) {
  let v = serde_json::to_value(StatsSer::from(st)).unwrap();
  if let Value::Object(m) = v { for (k, x) in m { if k != "max_consecutive_ticks" { out.add(&k, x.as_u64().unwrap_or(0)); } } }
  let cur = out.get("max_consecutive_ticks");
  if st.max_consecutive_ticks > cur { out.counters.insert("max_consecutive_ticks".to_string(), st.max_consecutive_ticks); }
}

#[derive(serde::Serialize)]
struct StatsSer {
  polls: u64, sends: u64, step_sends: u64, chord_sends: u64, tablet_sends: u64, wakeups_with_2plus_events: u64, wakeups_both_devices: u64,
  spurious_timeouts: u64, interruptions: u64, ticks: u64, max_consecutive_ticks: u64, firings_with_3plus_ticks: u64, ticks_with_chord_key_held: u64,
  ticks_after_ignored_event: u64, cancellations_by_other_key: u64, catchup_polls: u64, timed_polls: u64, special_firings: u64,
  tablet_on: u64, tablet_off: u64, tablet_on_with_keys_held: u64, tablet_on_with_repeat_pending: u64, tablet_repeated: u64,
  kb_events_in_tablet_mode: u64, ticks_in_tablet_mode: u64, post_off_steps: u64, tablet_and_keyboard_same_wakeup: u64,
  end_keyboard: u64, end_tablet: u64, kb_events: u64
}
impl StatsSer {
  fn from(s: &LoopStats) -> StatsSer {
    StatsSer { polls: s.polls, sends: s.sends, step_sends: s.step_sends, chord_sends: s.chord_sends, tablet_sends: s.tablet_sends,
      wakeups_with_2plus_events: s.wakeups_with_2plus_events, wakeups_both_devices: s.wakeups_both_devices, spurious_timeouts: s.spurious_timeouts,
      interruptions: s.interruptions, ticks: s.ticks, max_consecutive_ticks: s.max_consecutive_ticks, firings_with_3plus_ticks: s.firings_with_3plus_ticks,
      ticks_with_chord_key_held: s.ticks_with_chord_key_held, ticks_after_ignored_event: s.ticks_after_ignored_event,
      cancellations_by_other_key: s.cancellations_by_other_key, catchup_polls: s.catchup_polls, timed_polls: s.timed_polls, special_firings: s.special_firings,
      tablet_on: s.tablet_on, tablet_off: s.tablet_off, tablet_on_with_keys_held: s.tablet_on_with_keys_held,
      tablet_on_with_repeat_pending: s.tablet_on_with_repeat_pending, tablet_repeated: s.tablet_repeated, kb_events_in_tablet_mode: s.kb_events_in_tablet_mode,
      ticks_in_tablet_mode: s.ticks_in_tablet_mode, post_off_steps: s.post_off_steps, tablet_and_keyboard_same_wakeup: s.tablet_and_keyboard_same_wakeup,
      end_keyboard: s.end_keyboard, end_tablet: s.end_tablet, kb_events: s.kb_events }
  }
}

fn record(out: &mut ShardOut, prop: &str, lvs: &[LV], case: &LayoutCase, sched: &Schedule, fault_at: Option<usize>, lateness: u64, log: &[Rec]) -> bool {
  record_stall(out, prop, lvs, case, sched, fault_at, lateness, log, None)
}

fn record_stall(out: &mut ShardOut, prop: &str, lvs: &[LV], case: &LayoutCase, sched: &Schedule, fault_at: Option<usize>, lateness: u64, log: &[Rec], stall: Option<(usize, u64)>) -> bool {
  let mut any = false;
  for lv in lvs {
    if lv.property != prop { out.count(&format!("other_property_observations_{}", lv.property)); continue; }
    any = true;
    let mut rep = replay_obj_stall(prop, case, sched, fault_at, lateness, stall);
    let lo = if lv.index > 12 { lv.index - 12 } else { 0 };
    let hi = std::cmp::min(log.len(), lv.index + 3);
    rep["log_excerpt"] = log_json(&log[lo..hi]);
    out.violation(Violation { property: prop.to_string(), clause: lv.clause.to_string(), signature: lv.signature.clone(), message: lv.message.clone(), replay: rep });
  }
  any
}

// the loop turns delay_ms / interval_ms into a Duration with `as u64`; negative values are outside the loop properties
fn positive_timing(mut c: LayoutCase) -> LayoutCase {
  for m in c.layout.mappings.iter_mut() {
    if let Repeat::Special { delay_ms, interval_ms, .. } = &mut m.repeat {
      if *delay_ms < 0 { *delay_ms = delay_ms.checked_abs().unwrap_or(i32::MAX - 64); }
      if *interval_ms <= 0 { *interval_ms = interval_ms.checked_abs().unwrap_or(i32::MAX - 64).max(1); }
    }
  }
  c
}

fn layout_pool(opts: &Opts, rng: &mut Rng, n_gen: usize) -> Vec<LayoutCase> {
  let mut cases = vec![];
  for (name, l) in corpus_layouts() {
    if !valid_for_mapper(&l) { continue; }
    cases.push(make_case(l.clone(), &format!("corpus:{}", name), vec![None; l.mappings.len()], rng, 12));
  }
  for _ in 0..n_gen {
    let p = match opts.prop.as_str() {
      "C11" => GenParams { absorbing: rng.chance(1, 4), norepeat: true, special_bias: true, max_mappings: 6, shared_repeat: rng.chance(1, 8) },
      _ => GenParams { absorbing: rng.chance(1, 3), norepeat: rng.chance(2, 3), special_bias: rng.chance(1, 2), max_mappings: 6, shared_repeat: rng.chance(1, 8) }
    };
    cases.push(positive_timing(gen_case(rng, &p)));
  }
  cases
}

pub fn run(opts: &Opts) -> i32 {
  let mut out = ShardOut::new();
  let prop = opts.prop.clone();
  let mut rng = Rng::new(opts.shard_seed() ^ hash_str(&prop));
  let thorough = opts.thorough();
  if !vclock::self_test() {
    out.notes.insert("harness_error".to_string(), json!("clock_gettime interposition does not reach std::time::Instant"));
    out.write(opts);
    return 3;
  }
  // quiet panics: they are caught and reported by run_case
  std::panic::set_hook(Box::new(|_| {}));
  let n_gen = opts.num("layouts", if thorough { 30000 } else { 3000 }) as usize;
  let n_gen = match prop.as_str() { "C20" => n_gen / 12, "C11" => n_gen * 3, "C12" => n_gen * 2, _ => n_gen };
  let per_layout = opts.num("schedules", if thorough { 60 } else { 20 }) as usize;
  let cases = layout_pool(opts, &mut rng, n_gen);
  let known = opts.known();
  let n_max = if thorough { 5 } else { 4 };

  for case in &cases {
    if prop == "C11" && !case.has_special { continue; }
    out.count("layouts");
    let reps = if case.source.starts_with("corpus") { per_layout * 4 } else { per_layout };
    let mut bad = 0;
    for si in 0..reps {
      // mostly short histories with few keys held; now and then a flood (thousands of events) or many keys held at once
      let (hlen, nm) = match rng.below(400) { 0 => (rng.range(1100, 2600), n_max), 1..=11 => (rng.range(30, 90), 24), _ => (rng.range(4, if thorough { 60 } else { 40 }), n_max) };
      if hlen >= 1000 { out.count("flood_histories"); }
      if nm > n_max { out.count("wide_histories"); }
      let wide_case;
      let case = if nm > n_max {
        // extra keys outside the layout so that many keys can be held
        let mut c = case.clone();
        for _ in 0..20 { let k = any_key(&mut rng); if !c.layout_keys.contains(&k) { set_insert(&mut c.alphabet, k); set_insert(&mut c.foreign, k); } }
        wide_case = c; &wide_case
      } else { case };
      let hist = gen_history(&mut rng, case, hlen, nm);
      let sp = match prop.as_str() {
        "C10" => SchedParams { tablet: if rng.chance(1, 3) { 10 } else { 0 }, timers: rng.chance(1, 2), oddities: true, end_anywhere: true },
        "C11" => SchedParams { tablet: if rng.chance(1, 4) { 8 } else { 0 }, timers: true, oddities: rng.chance(1, 2), end_anywhere: rng.chance(1, 4) },
        "C12" => SchedParams { tablet: 30, timers: rng.chance(2, 3), oddities: rng.chance(1, 2), end_anywhere: rng.chance(1, 4) },
        _ => SchedParams { tablet: if rng.chance(1, 2) { 15 } else { 0 }, timers: rng.chance(1, 2), oddities: rng.chance(1, 2), end_anywhere: rng.chance(1, 2) }
      };
      let sched = gen_schedule(&mut rng, &hist, &sp);
      let lateness = if prop == "C11" || prop == "C12" { *rng.pick(&[0u64, 0, 0, 0, 3 * MS, 40 * MS, 700 * MS]) } else { 0 };
      // a one-off stall (process stopped, machine suspended): one time-out is served very late, then the loop has to catch up
      let stall: Option<(usize, u64)> = if (prop == "C11" || prop == "C12" || prop == "C10") && rng.chance(1, 6) {
        Some((rng.range(1, 6), *rng.pick(&[150 * MS, 1200 * MS, 2500 * MS, 30_000 * MS]))) } else { None };
      let rr = run_case_stall(&case.layout, &sched, None, lateness, false, stall);
      if stall.is_some() { out.count("schedules_with_a_stall"); }
      out.count("schedules");
      if sched.batches.iter().any(|b| b.extra_interrupts > 0) { out.count("schedules_with_consecutive_interruptions"); }
      out.add("driver_calls", rr.calls as u64);
      if let Some(p) = &rr.panicked {
        out.violation(Violation { property: prop.clone(), clause: "panic".to_string(), signature: format!("{}:loop-panicked", prop),
          message: format!("the per-device loop panicked: {}", p), replay: replay_obj(&prop, case, &sched, None, lateness) });
        bad += 1;
        if bad >= 2 { break; } else { continue; }
      }
      let (lvs, st) = check_log(&case.layout, &rr.log, false);
      add_stats(&mut out, &st);
      if rr.runaway { out.count("runaway_runs"); }
      // non-trivial schedule per property
      let nontrivial = match prop.as_str() {
        "C10" => st.wakeups_with_2plus_events > 0 || st.wakeups_both_devices > 0,
        "C11" => st.ticks > 0,
        "C12" => st.tablet_on > 0,
        _ => false
      };
      if nontrivial { out.nontrivial(hash64(&(case.id, hash_str(&schedule_json(&sched).to_string()), lateness))); }
      if prop != "C20" {
        if record_stall(&mut out, &prop, &lvs, case, &sched, None, lateness, &rr.log, stall) {
          if lvs.iter().any(|l| l.property == prop && !known.contains(&l.signature)) { bad += 1; if bad >= 2 { break; } }
        }
        if out.wants_sample() && si == 1 && nontrivial {
          out.sample(json!({ "layout_source": case.source, "layout": layout_str(&case.layout), "schedule": schedule_json(&sched), "lateness_ns": lateness, "boundary_log": log_json(&rr.log[..std::cmp::min(rr.log.len(), 60)]) }));
        }
      }
      // C10 metamorphic layer: same history, every chunking, zero delays, no tablet -> identical payloads
      if prop == "C10" && si % 3 == 0 {
        let h: Vec<Event> = hist.iter().cloned().take(if thorough { 24 } else { 16 }).collect();
        if !h.is_empty() {
          let want = expected_payloads(&case.layout, &h);
          let n = h.len();
          let mut splits: Vec<Vec<bool>> = vec![vec![true; n], vec![false; n]];
          let exhaustive = n <= 7 && thorough;
          if exhaustive {
            splits.clear();
            for mask in 0..(1u32 << (n - 1)) { splits.push((0..n).map(|b| b < n - 1 && (mask >> b) & 1 == 1).collect()); }
            out.count("histories_with_all_splits");
          }
          else { for _ in 0..(if thorough { 32 } else { 8 }) { splits.push((0..n).map(|_| rng.chance(1, 2)).collect()); } }
          for cuts in &splits {
            let s2 = split_schedule(&h, cuts);
            let r2 = run_case(&case.layout, &s2, None, 0, false);
            out.count("metamorphic_runs");
            let got = sends_of(&r2.log);
            let (lv2, st2) = check_log(&case.layout, &r2.log, false);
            if st2.wakeups_with_2plus_events > 0 { out.nontrivial(hash64(&(case.id, hash_str(&format!("{:?}{:?}", h, cuts)), 1u8))); }
            if got != want || r2.panicked.is_some() {
              out.violation(Violation { property: "C10".to_string(), clause: "chunking".to_string(), signature: "C10:output-depends-on-chunking".to_string(),
                message: format!("history of {} events split as {:?}: the loop wrote {:?}, the mapper's outputs for the sequence are {:?}", n, cuts, got.iter().map(|x| evs_str(x)).collect::<Vec<_>>(), want.iter().map(|x| evs_str(x)).collect::<Vec<_>>()),
                replay: replay_obj("C10", case, &s2, None, 0) });
              bad += 1;
              break;
            }
            if record(&mut out, "C10", &lv2, case, &s2, None, 0, &r2.log) { bad += 1; break; }
          }
        }
      }
      // C20: fail each driver call in turn
      if prop == "C20" {
        if !lvs.is_empty() { out.count("fault_free_runs_with_other_observations"); }
        let n = rr.calls;
        let stride = if n <= 120 || (thorough && n <= 600) { 1 } else { 1 + n / (if thorough { 600 } else { 120 }) };
        let mut k = rng.below(stride);
        let mut kinds: std::collections::BTreeMap<&'static str, u64> = std::collections::BTreeMap::new();
        while k < n {
          let fr = run_case(&case.layout, &sched, Some(k), lateness, false);
          out.count("fault_runs");
          let what = fr.log.iter().filter_map(|r| match r { Rec::Fault { what, .. } => Some(*what), _ => None }).next();
          match what {
            Some(w) => { *kinds.entry(w).or_insert(0) += 1; out.nontrivial(hash64(&(case.id, hash_str(&schedule_json(&sched).to_string()), k))); },
            None => { out.count("fault_point_not_reached"); }
          }
          let lv = check_fault(&fr.log, k, fr.runaway, &fr.panicked);
          if record(&mut out, "C20", &lv, case, &sched, Some(k), lateness, &fr.log) { bad += 1; break; }
          if out.wants_sample() && what == Some("send") && k > 6 {
            out.sample(json!({ "layout": layout_str(&case.layout), "schedule": schedule_json(&sched), "fault_at_call": k, "boundary_log_tail": log_json(&fr.log[fr.log.len().saturating_sub(8)..]) }));
          }
          k += stride;
        }
        for (w, c) in kinds { out.add(&format!("faults_at_{}", w), c); }
        if bad >= 2 { break; }
      }
    }
  }

  // the same loop on the real driver (epoll, the evdev readers, the uinput writer) over pipes
  if prop == "C10" || prop == "C12" || prop == "C20" {
    crate::realdrv_mon::phase(&mut out, opts, &mut rng, &cases);
  }
  // a few runs on the real clock: the interposed clock must not hide another time source
  if prop == "C11" && opts.shard < 4 {
    real_clock_runs(&mut out, &mut rng);
  }
  out.add("backoff_sleeps_on_the_virtual_clock", vclock::sleeps().saturating_sub(1));
  out.write(opts);
  if out.n_violations() > 0 { 1 } else { 0 }
}

// Real-time bracket check (C11): poll entry + time-out must fall where the schedule says, within measured brackets.
fn real_clock_runs(out: &mut ShardOut, rng: &mut Rng) {
  use KeyCode::*;
  let delay = 30 + rng.below(20) as i32;
  let interval = 8 + rng.below(8) as i32;
  let layout = Layout { mappings: vec![ Mapping { from: vec![B], to: vec![B], repeat: Repeat::Special { keys: vec![F21], delay_ms: delay, interval_ms: interval }, absorbing: vec![] } ] };
  let gap = (delay + 5 * interval + 3) as u64 * MS;
  let mk = |kb: Vec<KItem>, d: u64| Batch { delay_ns: d, kb, tab: vec![], tablet_first: false, trickle: vec![], phantom_kb: false, phantom_tab: false, spurious: 0, interrupt: false, extra_interrupts: 0 };
  let sched = Schedule { batches: vec![ mk(vec![KItem::Ev(Pressed(B))], 2 * MS), mk(vec![KItem::Ev(Released(B))], gap), mk(vec![KItem::End], MS) ] };
  let rr = run_case(&layout, &sched, None, 0, true);
  out.count("real_clock_runs");
  // The loop reads the clock right after the write that follows NextK(One(Pressed)): its firing instant lies between
  // that record (t_lo) and the next driver call (t_hi). For tick k the poll target (entry + time-out) can never be
  // earlier than t_lo + delay + k*interval, whatever the machine load; being much later than t_hi + ... is only noted.
  let mut t_lo = 0u64; let mut t_hi = 0u64; let mut k = 0u64; let mut armed = false;
  for (i, r) in rr.log.iter().enumerate() {
    match r {
      Rec::NextK { t, res: ScriptedNext::One(Pressed(_)) } => {
        t_lo = *t; armed = true; k = 0;
        t_hi = rr.log[i + 1..].iter().filter_map(|x| match x { Rec::NextK { t, .. } | Rec::Poll { t, .. } => Some(*t), _ => None }).next().unwrap_or(*t);
      },
      Rec::NextK { res: ScriptedNext::One(Released(_)), .. } => armed = false,
      Rec::Poll { t, timeout: Some(d), result, .. } if armed => {
        let due_lo = t_lo + (delay as u64 + k * interval as u64) * MS;
        let due_hi = t_hi + (delay as u64 + k * interval as u64) * MS;
        let target = *t + *d;
        out.count("real_clock_timed_polls");
        if *d != MS {
          if target < due_lo {
            out.violation(Violation { property: "C11".to_string(), clause: "real-clock".to_string(), signature: "C11:real-clock-bracket".to_string(),
              message: format!("on the real clock: poll at {} ns with time-out {} ns targets {} ns, earlier than the earliest possible due time {} ns of tick {}", t, d, target, due_lo, k),
              replay: json!({ "engine": "loop", "property": "C11", "real_clock": true, "layout": serde_json::to_value(&layout).unwrap(), "schedule": schedule_json(&sched), "fault_at": null, "lateness_ns": 0 }) });
          }
          if target > due_hi + 250 * MS { out.count("real_clock_late_targets_noted"); }
        }
        if *result == PollRes::TimedOut { k += 1; }
      },
      _ => ()
    }
  }
  let (lvs, st) = check_log(&layout, &rr.log, true);
  out.add("real_clock_ticks", st.ticks);
  for lv in lvs { if lv.property == "C11" {
    out.violation(Violation { property: "C11".to_string(), clause: lv.clause.to_string(), signature: format!("{}:real-clock", lv.signature), message: lv.message,
      replay: json!({ "engine": "loop", "property": "C11", "real_clock": true, "layout": serde_json::to_value(&layout).unwrap(), "schedule": schedule_json(&sched), "fault_at": null, "lateness_ns": 0 }) });
  } }
}

pub fn replay(rep: &Value, out: &mut ShardOut) -> bool {
  let prop = rep.get("property").and_then(|p| p.as_str()).unwrap_or("C10").to_string();
  let layout: Layout = match rep.get("layout").and_then(|l| serde_json::from_value(l.clone()).ok()) { Some(l) => l, None => return false };
  if !valid_for_mapper(&layout) { return false; }
  let sched = match rep.get("schedule").and_then(schedule_parse) { Some(s) => s, None => return false };
  let fault_at = rep.get("fault_at").and_then(|f| f.as_u64()).map(|x| x as usize);
  let lateness = rep.get("lateness_ns").and_then(|f| f.as_u64()).unwrap_or(0);
  let real = rep.get("real_clock").and_then(|f| f.as_bool()).unwrap_or(false);
  std::panic::set_hook(Box::new(|_| {}));
  let mut rng = Rng::new(1);
  let case = make_case(layout.clone(), "replay", vec![None; layout.mappings.len()], &mut rng, 1000);
  let stall = rep.get("stall").and_then(|s| s.as_array()).and_then(|a| Some((a.get(0)?.as_u64()? as usize, a.get(1)?.as_u64()?)));
  let rr = run_case_stall(&layout, &sched, fault_at, lateness, real, stall);
  let mut lvs = if fault_at.is_some() { check_fault(&rr.log, fault_at.unwrap(), rr.runaway, &rr.panicked) } else { check_log(&layout, &rr.log, real).0 };
  if fault_at.is_none() {
    if let Some(p) = &rr.panicked { lvs.push(LV { property: "C10", clause: "panic", signature: format!("{}:loop-panicked", prop), message: p.clone(), index: rr.log.len() }); }
    // metamorphic expectation for zero-delay, tablet-free schedules
    let plain = sched.batches.iter().all(|b| b.delay_ns == 0 && b.tab.is_empty() && b.trickle.is_empty());
    if plain && prop == "C10" {
      let mut h = vec![];
      'o: for b in &sched.batches { for x in &b.kb { match x { KItem::Ev(e) => h.push(e.clone()), KItem::End => break 'o } } }
      if sends_of(&rr.log) != expected_payloads(&layout, &h) {
        lvs.push(LV { property: "C10", clause: "chunking", signature: "C10:output-depends-on-chunking".to_string(), message: "payloads differ from the mapper's outputs for the sequence".to_string(), index: rr.log.len() });
      }
    }
  }
  for lv in lvs {
    if lv.property == prop || (lv.clause == "panic") {
      out.violation(Violation { property: prop.clone(), clause: lv.clause.to_string(), signature: lv.signature.clone(), message: lv.message.clone(), replay: Value::Null });
    }
  }
  out.notes.insert("boundary_log".to_string(), log_json(&rr.log));
  true
}
