// tmverif: runtime monitors around the real code of ellbur/totalmapper.
//
// The repository is a binary crate without lib.rs, so its modules are compiled
// into this harness straight from /repo's working tree: an edit under
// /repo/src makes cargo rebuild this binary (dep-info tracks the files).
// Built with RUSTFLAGS="--cfg ellbur_totalmapper_verif" (see /verif/check).

#![allow(dead_code, unused_imports, unused_variables, unused_mut, non_local_definitions)]

#[macro_use]
extern crate enum_display_derive;

#[path = "/repo/src/key_codes.rs"] mod key_codes;
#[path = "/repo/src/events.rs"] mod events;
#[path = "/repo/src/keys.rs"] mod keys;
#[path = "/repo/src/fancy_keys.rs"] mod fancy_keys;
#[path = "/repo/src/fancy_layout_interpreting.rs"] mod fancy_layout_interpreting;
#[path = "/repo/src/key_transforms.rs"] mod key_transforms;
#[path = "/repo/src/dev_input_rw.rs"] mod dev_input_rw;
#[path = "/repo/src/struct_ser.rs"] mod struct_ser;
#[path = "/repo/src/default_fancy_layouts.rs"] mod default_fancy_layouts;
#[path = "/repo/src/remapping_loop.rs"] mod remapping_loop;
#[path = "/repo/src/keyboard_listing.rs"] mod keyboard_listing;
#[path = "/repo/src/udev_utils.rs"] mod udev_utils;
#[path = "/repo/src/layout_loading.rs"] mod layout_loading;
#[path = "/repo/src/tablet_mode_switch_reader.rs"] mod tablet_mode_switch_reader;
#[path = "/repo/src/layout_parsing_formatting.rs"] mod layout_parsing_formatting;
#[path = "/repo/src/char_production_map.rs"] mod char_production_map;
#[path = "/repo/src/physical_keyboard_layouts.rs"] mod physical_keyboard_layouts;
#[path = "/repo/src/example_hardware.rs"] mod example_hardware;

mod rng;
mod dict;
mod common;
mod layouts;
mod mapper_mon;
mod vclock;
mod loop_mon;
mod realdrv_mon;
mod systemd_mon;
mod keytable;
mod wire_mon;
mod refexpand;
mod convert_mon;
mod load_mon;
mod roundtrip_mon;
mod devices_mon;

use std::collections::HashMap;

fn usage() -> ! {
  eprintln!("usage: tmverif <engine> key=value ...");
  eprintln!("  engines: mapper | replay | selftest");
  std::process::exit(2);
}

fn main() {
  let args: Vec<String> = std::env::args().collect();
  if args.len() < 2 { usage(); }
  let mut kv: HashMap<String, String> = HashMap::new();
  for a in &args[2..] {
    match a.find('=') {
      Some(i) => { kv.insert(a[..i].to_string(), a[i+1..].to_string()); },
      None => { kv.insert(a.clone(), "1".to_string()); }
    }
  }
  let opts = common::Opts::from_map(kv);
  let code = match args[1].as_str() {
    "mapper" => mapper_mon::run(&opts),
    "loop" => loop_mon::run(&opts),
    "systemd" => systemd_mon::run(&opts),
    "wire" => wire_mon::run(&opts),
    "convert" => convert_mon::run(&opts),
    "load" => load_mon::run(&opts),
    "roundtrip" => roundtrip_mon::run(&opts),
    "devices" => devices_mon::run(&opts),
    "replay" => common::replay(&opts),
    "merge" => common::merge_distinct(&args[2..].to_vec()),
    _ => usage()
  };
  std::process::exit(code);
}
