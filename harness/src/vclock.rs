// Virtual time without touching the repository: this binary defines the libc
// symbol clock_gettime itself, so std::time::Instant::now() inside the real
// event loop reads the clock below. While VIRT_ON is false the call is passed
// to the kernel unchanged.

use std::sync::atomic::{AtomicBool, AtomicU64, Ordering};

static VIRT_ON: AtomicBool = AtomicBool::new(false);
static VIRT_NS: AtomicU64 = AtomicU64::new(0);
static CALLS: AtomicU64 = AtomicU64::new(0);

// an arbitrary "boot + uptime" base so that Instant arithmetic has room in both directions
const BASE_S: i64 = 1_000_000;

// (not under Miri: it has its own shim for this symbol and refuses a second definition; the loop engine is not run there)
#[cfg(not(miri))]
#[no_mangle]
pub unsafe extern "C" fn clock_gettime(clk: libc::clockid_t, ts: *mut libc::timespec) -> libc::c_int {
  if VIRT_ON.load(Ordering::Relaxed) {
    CALLS.fetch_add(1, Ordering::Relaxed);
    let ns = VIRT_NS.load(Ordering::Relaxed);
    (*ts).tv_sec = BASE_S + (ns / 1_000_000_000) as i64;
    (*ts).tv_nsec = (ns % 1_000_000_000) as i64;
    0
  }
  else {
    libc::syscall(libc::SYS_clock_gettime, clk as libc::c_long, ts) as libc::c_int
  }
}

// std::thread::sleep (the loop's back-off after repeated interruptions) runs on the same clock: while the virtual
// clock is on, a sleep advances it by the requested time and returns at once.
static SLEEPS: AtomicU64 = AtomicU64::new(0);
static SLEPT_NS: AtomicU64 = AtomicU64::new(0);

unsafe fn virtual_sleep(req: *const libc::timespec) {
  let ns = ((*req).tv_sec.max(0) as u64).saturating_mul(1_000_000_000).saturating_add((*req).tv_nsec.max(0) as u64);
  SLEEPS.fetch_add(1, Ordering::Relaxed);
  SLEPT_NS.fetch_add(ns, Ordering::Relaxed);
  VIRT_NS.fetch_add(ns, Ordering::Relaxed);
}

#[cfg(not(miri))]
#[no_mangle]
pub unsafe extern "C" fn nanosleep(req: *const libc::timespec, rem: *mut libc::timespec) -> libc::c_int {
  if VIRT_ON.load(Ordering::Relaxed) && !req.is_null() { virtual_sleep(req); return 0; }
  libc::syscall(libc::SYS_nanosleep, req, rem) as libc::c_int
}

#[cfg(not(miri))]
#[no_mangle]
pub unsafe extern "C" fn clock_nanosleep(clk: libc::clockid_t, flags: libc::c_int, req: *const libc::timespec, rem: *mut libc::timespec) -> libc::c_int {
  if VIRT_ON.load(Ordering::Relaxed) && !req.is_null() && flags == 0 { virtual_sleep(req); return 0; }
  // (clock_nanosleep reports failure through its return value, not errno)
  let r = libc::syscall(libc::SYS_clock_nanosleep, clk as libc::c_long, flags as libc::c_long, req, rem);
  if r < 0 { *libc::__errno_location() } else { 0 }
}

pub fn sleeps() -> u64 { SLEEPS.load(Ordering::Relaxed) }
pub fn slept_ns() -> u64 { SLEPT_NS.load(Ordering::Relaxed) }

pub fn enable(start_ns: u64) {
  VIRT_NS.store(start_ns, Ordering::Relaxed);
  VIRT_ON.store(true, Ordering::Relaxed);
}

pub fn disable() {
  VIRT_ON.store(false, Ordering::Relaxed);
}

pub fn is_on() -> bool { VIRT_ON.load(Ordering::Relaxed) }

pub fn now_ns() -> u64 { VIRT_NS.load(Ordering::Relaxed) }

pub fn advance_to(ns: u64) {
  if ns > VIRT_NS.load(Ordering::Relaxed) { VIRT_NS.store(ns, Ordering::Relaxed); }
}

pub fn calls() -> u64 { CALLS.load(Ordering::Relaxed) }

// Self-test: does std's Instant really read the interposed symbol?
pub fn self_test() -> bool {
  enable(5_000_000_000);
  let a = std::time::Instant::now();
  advance_to(5_000_000_000 + 1_234_567_000);
  let b = std::time::Instant::now();
  disable();
  let d = b.duration_since(a);
  // and std::thread::sleep must run on it as well (3 virtual hours here)
  enable(5_000_000_000);
  let s0 = sleeps();
  let c = std::time::Instant::now();
  std::thread::sleep(std::time::Duration::from_secs(10_800));
  let e = std::time::Instant::now();
  disable();
  d == std::time::Duration::from_nanos(1_234_567_000) && sleeps() == s0 + 1 && e.duration_since(c) == std::time::Duration::from_secs(10_800)
}

pub fn real_now_ns() -> u64 {
  let mut ts = libc::timespec { tv_sec: 0, tv_nsec: 0 };
  unsafe { libc::syscall(libc::SYS_clock_gettime, libc::CLOCK_MONOTONIC as libc::c_long, &mut ts as *mut libc::timespec); }
  (ts.tv_sec as u64) * 1_000_000_000 + ts.tv_nsec as u64
}
