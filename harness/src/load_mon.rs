// C14: any layout file is either rejected with a message or runs without crashing.
// A panic monitor around the real load pipeline (load_layout_from_file), around
// Mapper::for_layout and around steps of random ill-formed histories.

use std::panic::{catch_unwind, AssertUnwindSafe};
use serde_json::{json, Value, Map};
use crate::keys::{KeyCode, Event, Layout};
use crate::keys::Event::{Pressed, Released};
use crate::key_transforms::Mapper;
use crate::rng::Rng;
use crate::common::*;
use crate::layouts::*;
use crate::refexpand::{gen_program, render, ProgGen, Spelling};

fn panic_msg(p: Box<dyn std::any::Any + Send>) -> String {
  if let Some(s) = p.downcast_ref::<String>() { s.clone() } else if let Some(s) = p.downcast_ref::<&str>() { s.to_string() } else { "panic".to_string() }
}

// class of a panic: stage + message with digits stripped
fn panic_class(stage: &str, msg: &str) -> String {
  let m: String = msg.chars().filter(|c| !c.is_ascii_digit()).take(60).collect();
  format!("C14:panic-in-{}:{}", stage, m.trim())
}

// class of a rejection message: its fixed part (up to the first quote/brace/colon-space payload)
fn rejection_class(msg: &str) -> String {
  let mut s = msg.to_string();
  if s.starts_with("Malformed mapping ") {
    // "Malformed mapping <json>: reason" -> reason (the json may itself contain ": ")
    s = match s.rfind(": ") { Some(_) => {
        // the reason starts after the mapping's JSON text; find the first ": " that is followed by a known reason start
        let starts = ["Mapping must", "`", "Modifier", "Can't", "A real key", "A string", "Unknown", "Unrecognized", "Alias", "Error in", "Don't", "Cannot", "Row mapping", "Each", "delay_ms", "interval_ms", "Invalid"];
        let mut best: Option<usize> = None;
        for st in starts.iter() { if let Some(i) = s.find(&format!(": {}", st)) { if best.map(|b| i < b).unwrap_or(true) { best = Some(i); } } }
        match best { Some(i) => format!("Malformed mapping: {}", &s[i + 2..]), None => "Malformed mapping: (other)".to_string() }
      }, None => s };
  }
  let body = if s.starts_with("Malformed mapping: ") { &s[19..] } else { &s[..] };
  let cut: String = body.chars().take_while(|c| *c != '{' && *c != '"' && *c != '[' && *c != ':' && *c != ',' && *c != '\'' && !c.is_ascii_digit()).collect();
  let words: Vec<&str> = cut.split_whitespace().take(7).collect();
  let r = words.join(" ");
  if s.starts_with("Malformed mapping: ") { format!("Malformed mapping: {}", r) } else { r }
}

pub struct Ctx { pub file: String, pub current: String }

// -> Some(layout) if accepted
pub fn load_and_drive(bytes: &[u8], kind: &str, ctx: &Ctx, rng: &mut Rng, out: &mut ShardOut) -> Option<Layout> {
  out.count("inputs");
  out.count(&format!("inputs_{}", kind));
  // remember the input: if the process dies (stack overflow, abort) the driver reports it as the witness
  if !ctx.current.is_empty() { let _ = std::fs::write(&ctx.current, bytes); }
  if std::fs::write(&ctx.file, bytes).is_err() { out.count("harness_io_errors"); return None; }
  let replay = || json!({ "engine": "load", "property": "C14", "kind": kind, "bytes_lossy": String::from_utf8_lossy(bytes).chars().take(4000).collect::<String>(),
    "bytes_hex": bytes.iter().take(8000).map(|b| format!("{:02x}", b)).collect::<String>() });
  let res = catch_unwind(|| crate::layout_loading::load_layout_from_file(&ctx.file));
  let layout = match res {
    Err(p) => {
      let m = panic_msg(p);
      out.violation(Violation { property: "C14".to_string(), clause: "load".to_string(), signature: panic_class("load", &m), message: format!("loading panicked: {}", m), replay: replay() });
      return None;
    },
    Ok(Err(msg)) => {
      out.count("rejected");
      let cls = rejection_class(&msg);
      if msg.trim().is_empty() {
        out.violation(Violation { property: "C14".to_string(), clause: "message".to_string(), signature: "C14:empty-rejection-message".to_string(), message: "rejected without a message".to_string(), replay: replay() });
      }
      out.nontrivial(hash_str(&format!("reject:{}", cls)));
      let n = out.notes.entry("rejection_classes".to_string()).or_insert(json!({}));
      if let Some(o) = n.as_object_mut() { if o.len() < 200 { let c = o.entry(cls).or_insert(json!(0)); *c = json!(c.as_u64().unwrap_or(0) + 1); } }
      return None;
    },
    Ok(Ok(l)) => l
  };
  out.count("accepted");
  out.count(&format!("accepted_{}", kind));
  out.nontrivial(hash_str(&format!("{:?}", layout.mappings)));
  // install
  let mapper = catch_unwind(|| Mapper::for_layout(&layout));
  let mut mapper = match mapper {
    Err(p) => {
      let m = panic_msg(p);
      out.violation(Violation { property: "C14".to_string(), clause: "install".to_string(), signature: panic_class("for_layout", &m),
        message: format!("the loader accepted the file, Mapper::for_layout panicked: {}", m), replay: replay() });
      return Some(layout);
    },
    Ok(m) => m
  };
  // drive
  let keys = {
    let mut k = layout_keys(&layout);
    for x in [KeyCode::A, KeyCode::LEFTSHIFT, KeyCode::KP5] { set_insert(&mut k, x); }
    k
  };
  let n = rng.range(10, 60);
  let mut held: Vec<KeyCode> = vec![];
  let mut hist: Vec<String> = vec![];
  let r = catch_unwind(AssertUnwindSafe(|| {
    for _ in 0..n {
      let k = *rng.pick(&keys);
      let press = if held.len() >= 6 { false } else { rng.chance(3, 5) };
      // ill-formed events are not filtered out
      let ev = if press { held.push(k); Pressed(k) } else { set_remove(&mut held, k); Released(k) };
      hist.push(ev_str(&ev));
      mapper.step(ev);
      if rng.chance(1, 30) { hist.push("RA".to_string()); mapper.release_all(); }
    }
    mapper.release_all();
  }));
  out.add("steps_driven", n as u64);
  if let Err(p) = r {
    let m = panic_msg(p);
    let mut rp = replay();
    rp["history"] = json!(hist);
    out.violation(Violation { property: "C14".to_string(), clause: "drive".to_string(), signature: panic_class("step", &m),
      message: format!("the loader accepted the file, driving the mapper panicked after {} events: {}", hist.len(), m), replay: rp });
  }
  Some(layout)
}

// ---------- JSON mutation ----------

fn paths(v: &Value, cur: &mut Vec<String>, out: &mut Vec<Vec<String>>) {
  out.push(cur.clone());
  match v {
    Value::Array(a) => for (i, x) in a.iter().enumerate() { cur.push(i.to_string()); paths(x, cur, out); cur.pop(); },
    Value::Object(o) => for (k, x) in o.iter() { cur.push(k.clone()); paths(x, cur, out); cur.pop(); },
    _ => ()
  }
}

fn get_mut<'a>(v: &'a mut Value, path: &[String]) -> Option<&'a mut Value> {
  let mut cur = v;
  for p in path {
    cur = match cur {
      Value::Array(a) => a.get_mut(p.parse::<usize>().ok()?)?,
      Value::Object(o) => o.get_mut(p)?,
      _ => return None
    };
  }
  Some(cur)
}

const VOCAB: [&str; 14] = ["mappings", "from", "to", "repeat", "absorbing", "row", "letters", "Special", "keys", "delay_ms", "interval_ms", "Normal", "Disabled", "no_repeat_keys"];

fn odd_string(rng: &mut Rng) -> Value {
  // a word the implementation itself uses somewhere (mined from its string literals), as a key name or an alias name
  if rng.chance(1, 10) { let t = rng.pick(crate::dict::all()).clone(); return json!(if rng.chance(1, 3) { format!("@{}", t) } else { t }); }
  if rng.chance(1, 8) { let mut s = stuffing(rng); if rng.chance(1, 2) { s.insert(0, '@'); } return json!(s); }
  let opts: Vec<String> = vec![
    "".into(), "@".into(), "@undefined".into(), "@shift".into(), "a".into(), "capslock".into(), "KEY_A".into(), "NOSUCHKEY".into(), "é".into(), "A ".into(),
    "1".into(), "10".into(), "-1".into(), "LEFTSHIFT".into(), "A".into(), "CAPSLOCK".into(), "\u{0}".into(), "𝔸".into(), "Q".into(), "`".into(), "q".into(), "Normal".into(),
    "disabled".into(), "SPECIAL".into(), "x".repeat(5000), "ROTATE_LOCK_TOGGLE".into(), "K1".into(), "0".into()
  ];
  json!(rng.pick(&opts).clone())
}

fn odd_number(rng: &mut Rng) -> Value {
  match rng.below(14) {
    0 => json!(0), 1 => json!(-1), 2 => json!(2147483647i64), 3 => json!(2147483648i64), 4 => json!(-2147483648i64), 5 => json!(-2147483649i64),
    6 => json!(i64::MAX), 7 => json!(i64::MIN), 8 => json!(u64::MAX), 9 => json!(1.5), 10 => json!(1e308), 11 => json!(-0.0), 12 => json!(4294967296i64 + 180),
    _ => json!(1e-320)
  }
}

// long strings of multi-byte characters (error messages quote the input; byte offsets inside them are not char offsets)
fn stuffing(rng: &mut Rng) -> String {
  let alphabet: Vec<char> = "ÜüßéñĳЖ中文😀🎹\u{1F1E9}\u{200d}aZ ".chars().collect();
  let n = rng.range(1, 140);
  (0..n).map(|_| *rng.pick(&alphabet)).collect()
}

// a row mapping whose repeat letters outnumber its letters, both stuffed (one of the parser's rejection paths that
// formats the whole mapping into its message)
fn stuffed_row_mapping(rng: &mut Rng) -> Value {
  let to = stuffing(rng);
  let mut rep = to.clone();
  for _ in 0..rng.range(0, 3) { rep.push(*rng.pick(&['x', 'Ü', '😀'])); }
  let mut from = vec![];
  for _ in 0..rng.below(3) { from.push(json!(*rng.pick(&["@shift", "@symbol", "LEFTSHIFT", "@süß", "CAPSLOCK"]))); }
  from.push(json!({ "row": *rng.pick(&["Q", "A", "Z", "1", "`", "q"]) }));
  json!({ "mappings": [
    { "from": "LEFTSHIFT", "to": "@shift" }, { "from": "CAPSLOCK", "to": "@symbol" }, { "from": "RIGHTALT", "to": "@süß" },
    { "from": from, "to": { "letters": to }, "repeat": { "Special": { "keys": { "letters": rep }, "delay_ms": rng.below(2000), "interval_ms": 30 } } } ] })
}

fn odd_letters(rng: &mut Rng) -> Value {
  if rng.chance(1, 3) { return json!({ "letters": stuffing(rng) }); }
  let opts: Vec<String> = vec!["".into(), "abcdefghijklmnopqrstuvwxyz".into(), "é".into(), "a\tb".into(), "a\u{0}".into(), " ".repeat(30), "ß∂ƒ".into(), "AAAAAAAAAAAAAA".into(), "\u{1F600}".into(), "a b".into(), "\"\\".into()];
  json!({ "letters": rng.pick(&opts).clone() })
}

fn odd_value(rng: &mut Rng, depth: usize) -> Value {
  match rng.below(12) {
    0 => Value::Null, 1 => json!(true), 2 => json!(false), 3 => odd_number(rng), 4 | 5 => odd_string(rng), 6 => json!([]), 7 => json!({}),
    8 => odd_letters(rng), 9 => json!({ "row": odd_string(rng) }),
    _ => {
      if depth >= 4 { return json!([]); }
      if rng.chance(1, 2) { Value::Array((0..rng.below(4)).map(|_| odd_value(rng, depth + 1)).collect()) }
      else {
        let mut o = Map::new();
        for _ in 0..rng.below(4) { o.insert(rng.pick(&VOCAB).to_string(), odd_value(rng, depth + 1)); }
        Value::Object(o)
      }
    }
  }
}

pub fn mutate(v: &Value, rng: &mut Rng) -> Value {
  let mut v = v.clone();
  let n_mut = match rng.below(10) { 0..=5 => 1, 6..=8 => 2, _ => 3 };
  for _ in 0..n_mut {
    let mut ps = vec![];
    paths(&v, &mut vec![], &mut ps);
    let path = rng.pick(&ps).clone();
    let kind = rng.below(14);
    if let Some(node) = get_mut(&mut v, &path) {
      match kind {
        0 | 1 => *node = odd_value(rng, 0),
        2 => if let Value::Object(o) = node { let keys: Vec<String> = o.keys().cloned().collect(); if !keys.is_empty() { o.remove(rng.pick(&keys)); } },
        3 => if let Value::Object(o) = node { let key = if rng.chance(1, 6) { rng.pick(crate::dict::all()).clone() } else { rng.pick(&VOCAB).to_string() }; o.insert(key, odd_value(rng, 1)); },
        4 => if let Value::Array(a) = node { a.clear(); },
        5 => if let Value::Array(a) = node { if !a.is_empty() { let i = rng.below(a.len()); let x = a[i].clone(); let j = rng.below(a.len() + 1); a.insert(j, x); } },   // repeated element
        6 => if let Value::Array(a) = node { if a.len() >= 2 { let i = rng.below(a.len()); let j = rng.below(a.len()); a.swap(i, j); } },
        7 => if let Value::String(_) = node { *node = odd_string(rng); },
        8 => if let Value::Number(_) = node { *node = odd_number(rng); },
        9 => if let Value::String(s) = node { *node = json!(vec![s.clone(), s.clone()]); },                      // key twice
        10 => { let inner = node.clone(); *node = json!([inner]); },                                             // extra nesting
        11 => if let Value::Object(o) = node { if o.contains_key("letters") { *node = odd_letters(rng); } },
        12 => if let Value::String(s) = node { if s.starts_with('@') { *node = json!("@undefined"); } else { *node = json!(format!("@{}", s.to_lowercase())); } },
        _ => { if let Value::Array(a) = node { if !a.is_empty() { let i = rng.below(a.len()); a.remove(i); } } }
      }
    }
  }
  v
}

fn random_json(rng: &mut Rng) -> Value {
  match rng.below(6) {
    0 => odd_value(rng, 0),
    1 => json!({ "mappings": odd_value(rng, 1) }),
    _ => {
      let n = rng.below(4);
      let ms: Vec<Value> = (0..n).map(|_| {
        let mut o = Map::new();
        for f in ["from", "to", "repeat", "absorbing"] { if rng.chance(2, 3) { o.insert(f.to_string(), odd_value(rng, 1)); } }
        Value::Object(o)
      }).collect();
      json!({ "mappings": ms })
    }
  }
}

fn raw_bytes(rng: &mut Rng, valid: &[Vec<u8>]) -> Vec<u8> {
  match rng.below(10) {
    0 => (0..rng.below(200)).map(|_| rng.below(256) as u8).collect(),
    1 => vec![],
    2 => { let v = rng.pick(valid); v[..rng.below(v.len() + 1)].to_vec() },                                    // truncated
    3 => { let mut v = rng.pick(valid).clone(); if !v.is_empty() { let i = rng.below(v.len()); v[i] = rng.below(256) as u8; } v },      // one byte flipped
    4 => { let mut v = vec![0xEF, 0xBB, 0xBF]; v.extend(rng.pick(valid)); v },                               // BOM
    5 => { let mut v = rng.pick(valid).clone(); v.extend(b" trailing"); v },
    6 => format!("{}{}", "[".repeat(rng.range(100, 100000)), "]").into_bytes(),                                  // deep nesting
    7 => br#"{"mappings":[{"from":"A","to":"B","repeat":{"Special":{"keys":"C","delay_ms":1e400,"interval_ms":30}}}]}"#.to_vec(),
    8 => br#"{"mappings":[{"from":"A","to":"B"}],"mappings":[{"from":"A","from":["A","A"],"to":"B"}]}"#.to_vec(),
    _ => { let mut v = rng.pick(valid).clone(); let s = String::from_utf8_lossy(&v).replace("\"", "'"); v = s.into_bytes(); v }
  }
}

pub fn run(opts: &Opts) -> i32 {
  let mut out = ShardOut::new();
  let mut rng = Rng::new(opts.shard_seed() ^ 0xc14);
  let thorough = opts.thorough();
  std::panic::set_hook(Box::new(|_| {}));
  let tmpdir = std::env::temp_dir();
  let ctx = Ctx {
    file: if opts.out.is_empty() { format!("{}/tmverif-c14-{}-{}.json", tmpdir.display(), std::process::id(), opts.shard) } else { format!("{}.input.json", opts.out) },
    current: if opts.out.is_empty() { String::new() } else { format!("{}.current", opts.out) }
  };
  // valid bases: corpus files (as shorthand JSON) and generated valid programs
  let mut bases: Vec<Value> = vec![];
  for (_, text) in crate::default_fancy_layouts::DEFAULT_LAYOUTS.iter() { if let Ok(v) = serde_json::from_str::<Value>(text) { bases.push(v); } }
  for d in [format!("{}/corpus/layouts", verif_root()), "/repo/working/syntax-examples".to_string()] {
    if let Ok(rd) = std::fs::read_dir(&d) {
      let mut files: Vec<_> = rd.filter_map(|e| e.ok()).map(|e| e.path()).collect();
      files.sort();
      for f in files { if let Ok(t) = std::fs::read_to_string(&f) { if let Ok(v) = serde_json::from_str::<Value>(&t) { bases.push(v); } } }
    }
  }
  out.add("corpus_bases", bases.len() as u64);
  let g = ProgGen { max_entries: 5 };
  let valid_bytes: Vec<Vec<u8>> = bases.iter().map(|b| serde_json::to_vec(b).unwrap()).collect();

  // every base unmutated first (they must all be accepted and drivable)
  for b in &bases { load_and_drive(&serde_json::to_vec_pretty(b).unwrap(), "corpus_unmutated", &ctx, &mut rng, &mut out); }

  let n = opts.num("inputs", if thorough { 800_000 } else { 50_000 });
  for i in 0..n {
    match i % 10 {
      0..=3 => {
        let b = rng.pick(&bases).clone();
        let m = mutate(&b, &mut rng);
        load_and_drive(&serde_json::to_vec(&m).unwrap(), "mutated_corpus", &ctx, &mut rng, &mut out);
      },
      4..=6 => {
        let p = gen_program(&mut rng, &g);
        let v = render(&p, &Spelling { vary: true, seed: rng.next_u64() });
        if rng.chance(1, 4) { load_and_drive(&serde_json::to_vec(&v).unwrap(), "generated_program", &ctx, &mut rng, &mut out); }
        else { let m = mutate(&v, &mut rng); load_and_drive(&serde_json::to_vec(&m).unwrap(), "mutated_program", &ctx, &mut rng, &mut out); }
      },
      7 => { let v = random_json(&mut rng); load_and_drive(&serde_json::to_vec(&v).unwrap(), "arbitrary_json", &ctx, &mut rng, &mut out); },
      8 => { if rng.chance(1, 2) { let v = random_json(&mut rng); load_and_drive(&serde_json::to_vec(&v).unwrap(), "arbitrary_json", &ctx, &mut rng, &mut out); }
             else { let v = stuffed_row_mapping(&mut rng); let v = if rng.chance(1, 3) { mutate(&v, &mut rng) } else { v }; load_and_drive(&serde_json::to_vec(&v).unwrap(), "stuffed_row_mapping", &ctx, &mut rng, &mut out); } },
      _ => { let b = raw_bytes(&mut rng, &valid_bytes); load_and_drive(&b, "raw_bytes", &ctx, &mut rng, &mut out); }
    }
    if out.wants_sample() && i % 997 == 5 {
      if let Ok(t) = std::fs::read_to_string(&ctx.file) { out.sample(json!({ "input": t.chars().take(400).collect::<String>(), "outcome": match crate::layout_loading::load_layout_from_file(&ctx.file) { Ok(l) => format!("accepted, {} mappings", l.mappings.len()), Err(e) => format!("rejected: {}", e.chars().take(200).collect::<String>()) } })); }
    }
  }
  // a file that does not exist / a directory
  for p in ["/nonexistent/layout.json", "/tmp"] {
    out.count("inputs");
    match catch_unwind(|| crate::layout_loading::load_layout_from_file(p)) {
      Ok(Err(_)) => out.count("rejected"),
      Ok(Ok(_)) => (),
      Err(pn) => { let m = panic_msg(pn); out.violation(Violation { property: "C14".to_string(), clause: "load".to_string(), signature: panic_class("load", &m), message: format!("loading {} panicked: {}", p, m), replay: Value::Null }); }
    }
  }
  let _ = std::fs::remove_file(&ctx.file);
  if !ctx.current.is_empty() { let _ = std::fs::remove_file(&ctx.current); }
  let n_classes = out.notes.get("rejection_classes").and_then(|o| o.as_object()).map(|o| o.len()).unwrap_or(0);
  out.counters.insert("distinct_rejection_messages_local".to_string(), n_classes as u64);
  out.write(opts);
  if out.n_violations() > 0 { 1 } else { 0 }
}

pub fn replay(rep: &Value, out: &mut ShardOut) -> bool {
  let hex = match rep.get("bytes_hex").and_then(|h| h.as_str()) { Some(h) => h, None => return false };
  let mut bytes = vec![];
  let hb = hex.as_bytes();
  let mut i = 0;
  while i + 1 < hb.len() { match u8::from_str_radix(&hex[i..i + 2], 16) { Ok(b) => bytes.push(b), Err(_) => return false } i += 2; }
  std::panic::set_hook(Box::new(|_| {}));
  let ctx = Ctx { file: format!("{}/tmverif-c14-replay-{}.json", std::env::temp_dir().display(), std::process::id()), current: String::new() };
  // the recorded history (if any) is not replayed literally; 50 seeds of the same driving workload are
  for s in 0..50 {
    let mut rng = Rng::new(s);
    load_and_drive(&bytes, "replay", &ctx, &mut rng, out);
    if !out.violations.is_empty() { break; }
  }
  let _ = std::fs::remove_file(&ctx.file);
  true
}
