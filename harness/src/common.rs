// Shared plumbing: options, key classification, violation records, shard output.

use std::collections::{HashMap, HashSet, BTreeMap};
use std::io::Write;
use serde_json::{json, Value};
use crate::keys::{KeyCode, Event, Layout, Mapping, Repeat};

#[derive(Clone, Debug)]
pub struct Opts {
  pub kv: HashMap<String, String>,
  pub prop: String,
  pub tier: String,
  pub seed: u64,
  pub shard: u64,
  pub nshards: u64,
  pub out: String
}

impl Opts {
  pub fn from_map(kv: HashMap<String, String>) -> Opts {
    let g = |k: &str, d: &str| kv.get(k).cloned().unwrap_or(d.to_string());
    Opts {
      prop: g("prop", ""),
      tier: g("tier", "quick"),
      seed: g("seed", "1").parse().unwrap_or(1),
      shard: g("shard", "0").parse().unwrap_or(0),
      nshards: g("nshards", "1").parse().unwrap_or(1),
      out: g("out", ""),
      kv
    }
  }
  pub fn get(&self, k: &str) -> Option<&String> { self.kv.get(k) }
  pub fn num(&self, k: &str, d: u64) -> u64 {
    self.kv.get(k).and_then(|s| s.parse().ok()).unwrap_or(d)
  }
  pub fn thorough(&self) -> bool { self.tier == "thorough" }
  // signatures of recorded known findings: counted, but they do not stop a walk
  pub fn known(&self) -> Vec<String> {
    self.kv.get("known").map(|s| s.split(',').filter(|x| !x.is_empty()).map(|x| x.to_string()).collect()).unwrap_or(vec![])
  }
  pub fn shard_seed(&self) -> u64 { self.seed.wrapping_mul(1000).wrapping_add(self.shard) }
}

// The eight standard modifiers, written down independently of key_transforms.rs
// (the property statements say "modifier" for exactly these keys).
pub fn is_modifier(k: KeyCode) -> bool {
  use KeyCode::*;
  matches!(k, LEFTSHIFT | RIGHTSHIFT | LEFTCTRL | RIGHTCTRL | LEFTALT | RIGHTALT | LEFTMETA | RIGHTMETA)
}

pub fn ends_in_modifier(m: &Mapping) -> bool {
  match m.to.last() { Some(k) => is_modifier(*k), None => false }
}

// "key-producing": the output ends in a non-modifier key
pub fn key_producing(m: &Mapping) -> bool {
  match m.to.last() { Some(k) => !is_modifier(*k), None => false }
}

pub fn no_repeat(m: &Mapping) -> bool {
  !matches!(m.repeat, Repeat::Normal)
}

pub fn set_insert(v: &mut Vec<KeyCode>, k: KeyCode) {
  if !v.contains(&k) { v.push(k); }
}
pub fn set_remove(v: &mut Vec<KeyCode>, k: KeyCode) {
  v.retain(|x| *x != k);
}
pub fn subset(a: &[KeyCode], b: &[KeyCode]) -> bool {
  a.iter().all(|k| b.contains(k))
}
pub fn same_set(a: &[KeyCode], b: &[KeyCode]) -> bool {
  subset(a, b) && subset(b, a)
}

pub fn all_key_codes() -> Vec<KeyCode> {
  // every discriminant the enum knows, found by probing (independent of get_all_keyboard_key_codes)
  let mut res = Vec::new();
  for i in 0..0x400 {
    if let Some(k) = <KeyCode as num_traits::FromPrimitive>::from_i32(i) {
      res.push(k);
    }
  }
  res
}

#[derive(Clone, Debug, PartialEq, Eq)]
pub enum Op {
  P(KeyCode),
  R(KeyCode),
  RA            // Mapper::release_all()
}

pub fn key_name(k: KeyCode) -> String {
  // same spelling as the JSON layout syntax
  serde_json::to_value(&k).unwrap().as_str().unwrap().to_string()
}

pub fn key_from_name(s: &str) -> Option<KeyCode> {
  serde_json::from_value(Value::String(s.to_string())).ok()
}

pub fn op_str(op: &Op) -> String {
  match op {
    Op::P(k) => format!("P:{}", key_name(*k)),
    Op::R(k) => format!("R:{}", key_name(*k)),
    Op::RA => "RA".to_string()
  }
}

pub fn op_parse(s: &str) -> Option<Op> {
  if s == "RA" { return Some(Op::RA); }
  if s.len() < 3 { return None; }
  let k = key_from_name(&s[2..])?;
  match &s[..2] {
    "P:" => Some(Op::P(k)),
    "R:" => Some(Op::R(k)),
    _ => None
  }
}

pub fn ev_str(e: &Event) -> String {
  match e {
    Event::Pressed(k) => format!("+{}", key_name(*k)),
    Event::Released(k) => format!("-{}", key_name(*k))
  }
}

pub fn evs_str(evs: &[Event]) -> String {
  evs.iter().map(ev_str).collect::<Vec<_>>().join(" ")
}

pub fn ev_parse(s: &str) -> Option<Event> {
  if s.len() < 2 { return None; }
  let k = key_from_name(&s[1..])?;
  match &s[..1] {
    "+" => Some(Event::Pressed(k)),
    "-" => Some(Event::Released(k)),
    _ => None
  }
}

pub fn mapping_str(m: &Mapping) -> String {
  let f: Vec<String> = m.from.iter().map(|k| key_name(*k)).collect();
  let t: Vec<String> = m.to.iter().map(|k| key_name(*k)).collect();
  let mut s = format!("[{}]->[{}]", f.join(","), t.join(","));
  match &m.repeat {
    Repeat::Normal => (),
    Repeat::Disabled => s.push_str(" Disabled"),
    Repeat::Special { keys, delay_ms, interval_ms } => {
      let k: Vec<String> = keys.iter().map(|k| key_name(*k)).collect();
      s.push_str(&format!(" Special[{}]/{}ms/{}ms", k.join(","), delay_ms, interval_ms));
    }
  }
  if !m.absorbing.is_empty() {
    let a: Vec<String> = m.absorbing.iter().map(|k| key_name(*k)).collect();
    s.push_str(&format!(" absorbing[{}]", a.join(",")));
  }
  s
}

pub fn layout_str(l: &Layout) -> String {
  l.mappings.iter().map(mapping_str).collect::<Vec<_>>().join("; ")
}

pub fn hash64<T: std::hash::Hash>(t: &T) -> u64 {
  use std::hash::Hasher;
  let mut h = std::collections::hash_map::DefaultHasher::new();
  t.hash(&mut h);
  h.finish()
}

pub fn hash_str(s: &str) -> u64 { hash64(&s) }

#[derive(Clone, Debug)]
pub struct Violation {
  pub property: String,
  pub clause: String,
  pub signature: String,
  pub message: String,
  pub replay: Value
}

// What one shard (one single-threaded process) hands back to ./check.
pub struct ShardOut {
  pub counters: BTreeMap<String, u64>,
  pub notes: BTreeMap<String, Value>,
  pub samples: Vec<Value>,
  pub violations: Vec<Violation>,
  pub violation_counts: BTreeMap<String, u64>,   // by signature, including the ones not kept
  pub distinct: HashSet<u64>,                   // keys of distinct non-trivial cases
  pub distinct_cap: usize,
  pub sample_cap: usize
}

impl ShardOut {
  pub fn new() -> ShardOut {
    ShardOut {
      counters: BTreeMap::new(), notes: BTreeMap::new(), samples: Vec::new(),
      violations: Vec::new(), violation_counts: BTreeMap::new(),
      distinct: HashSet::new(), distinct_cap: 4_000_000, sample_cap: 6
    }
  }
  pub fn count(&mut self, name: &str) { self.add(name, 1); }
  pub fn add(&mut self, name: &str, n: u64) {
    *self.counters.entry(name.to_string()).or_insert(0) += n;
  }
  pub fn get(&self, name: &str) -> u64 { *self.counters.get(name).unwrap_or(&0) }
  pub fn nontrivial(&mut self, key: u64) {
    if self.distinct.len() < self.distinct_cap { self.distinct.insert(key); }
    else { *self.counters.entry("distinct_set_saturated".to_string()).or_insert(0) += 1; }
  }
  pub fn sample(&mut self, v: Value) {
    if self.samples.len() < self.sample_cap { self.samples.push(v); }
  }
  pub fn wants_sample(&self) -> bool { self.samples.len() < self.sample_cap }
  pub fn violation(&mut self, v: Violation) {
    let c = self.violation_counts.entry(v.signature.clone()).or_insert(0);
    *c += 1;
    if *c <= 3 { self.violations.push(v); }
  }
  pub fn n_violations(&self) -> u64 { self.violation_counts.values().sum() }

  pub fn write(&self, opts: &Opts) {
    let viol: Vec<Value> = self.violations.iter().map(|v| json!({
      "property": v.property, "clause": v.clause, "signature": v.signature,
      "message": v.message, "replay": v.replay
    })).collect();
    let doc = json!({
      "property": opts.prop, "tier": opts.tier, "seed": opts.seed, "shard": opts.shard,
      "counters": self.counters, "notes": self.notes, "samples": self.samples,
      "violations": viol, "violation_counts": self.violation_counts,
      "distinct_local": self.distinct.len()
    });
    if opts.out.is_empty() {
      println!("{}", serde_json::to_string_pretty(&doc).unwrap());
    }
    else {
      std::fs::write(&opts.out, serde_json::to_vec(&doc).unwrap()).expect("write shard output");
      let mut v: Vec<u64> = self.distinct.iter().cloned().collect();
      v.sort_unstable();
      let mut bytes: Vec<u8> = Vec::with_capacity(v.len() * 8);
      for x in v { bytes.extend_from_slice(&x.to_le_bytes()); }
      std::fs::write(format!("{}.distinct", opts.out), bytes).expect("write distinct file");
    }
  }
}

// `tmverif merge f1.distinct f2.distinct ...` -> prints the size of the union
pub fn merge_distinct(files: &[String]) -> i32 {
  let mut all: Vec<u64> = Vec::new();
  for f in files {
    match std::fs::read(f) {
      Ok(b) => {
        for c in b.chunks_exact(8) {
          let mut a = [0u8; 8];
          a.copy_from_slice(c);
          all.push(u64::from_le_bytes(a));
        }
      },
      Err(e) => { eprintln!("cannot read {}: {}", f, e); return 2; }
    }
  }
  all.sort_unstable();
  all.dedup();
  println!("{}", all.len());
  0
}

// `tmverif replay file=<path>`: re-run exactly one recorded case through the same monitor.
// Exit 0 = no violation, 1 = violation (printed), 2 = cannot replay.
pub fn replay(opts: &Opts) -> i32 {
  let path = match opts.get("file") { Some(p) => p.clone(), None => { eprintln!("replay: file=<path> missing"); return 2; } };
  let text = match std::fs::read_to_string(&path) { Ok(t) => t, Err(e) => { eprintln!("replay: {}: {}", path, e); return 2; } };
  let doc: Value = match serde_json::from_str(&text) { Ok(v) => v, Err(e) => { eprintln!("replay: {}: {}", path, e); return 2; } };
  // a replay file is either a bare replay object or a violation record holding one
  let rep = if doc.get("engine").is_some() { doc.clone() } else { doc.get("replay").cloned().unwrap_or(Value::Null) };
  let engine = rep.get("engine").and_then(|e| e.as_str()).unwrap_or("").to_string();
  let mut out = ShardOut::new();
  let ok = match engine.as_str() {
    "mapper" => crate::mapper_mon::replay(&rep, &mut out),
    "loop" => crate::loop_mon::replay(&rep, &mut out),
    "realdrv" => crate::realdrv_mon::replay(&rep, &mut out),
    "systemd" => crate::systemd_mon::replay(&rep, &mut out),
    "wire" => crate::wire_mon::replay(&rep, &mut out),
    "convert" => crate::convert_mon::replay(&rep, &mut out),
    "load" => crate::load_mon::replay(&rep, &mut out),
    "roundtrip" => crate::roundtrip_mon::replay(&rep, &mut out),
    "devices" => crate::devices_mon::replay(&rep, &mut out),
    _ => { eprintln!("replay: unknown engine {:?}", engine); return 2; }
  };
  if !ok { eprintln!("replay: malformed replay object"); return 2; }
  let doc = json!({
    "violations": out.violations.iter().map(|v| json!({
      "property": v.property, "clause": v.clause, "signature": v.signature, "message": v.message
    })).collect::<Vec<_>>(),
    "notes": out.notes
  });
  println!("{}", serde_json::to_string(&doc).unwrap());
  if out.violations.is_empty() { 0 } else { 1 }
}
