// C17: the ExecStart line written by the real build_service_text, read back by an
// independent decoder of systemd's documented command-line rules
// (systemd.service(5) "COMMAND LINES", systemd.syntax(7) "QUOTING").

use serde_json::{json, Value};
use crate::rng::Rng;
use crate::common::*;

pub const INSTANCE_TOKEN: &str = "dev/input/event7";   // what %I stands for in the decoded line

#[derive(Debug, Clone, PartialEq)]
pub enum Decoded { Argv(Vec<Vec<u8>>), Invalid(String) }

fn is_ws(c: char) -> bool { c == ' ' || c == '\t' || c == '\n' || c == '\r' }

fn hexval(c: char) -> Option<u32> { c.to_digit(16) }

// One C-style escape after the backslash. Returns (decoded char, number of input chars consumed) or None if it is
// not a valid escape (systemd then keeps the backslash and the character and only warns).
fn push_char(w: &mut Vec<u8>, c: char) { let mut b = [0u8; 4]; w.extend_from_slice(c.encode_utf8(&mut b).as_bytes()); }

enum Esc { Ch(char), Byte(u8) }

fn unescape_one(rest: &[char]) -> Option<(Esc, usize)> {
  let c = *rest.get(0)?;
  let simple = match c {
    'a' => Some('\x07'), 'b' => Some('\x08'), 'f' => Some('\x0c'), 'n' => Some('\n'), 'r' => Some('\r'), 't' => Some('\t'),
    'v' => Some('\x0b'), '\\' => Some('\\'), '"' => Some('"'), '\'' => Some('\''), 's' => Some(' '),
    _ => None
  };
  if let Some(x) = simple { return Some((Esc::Ch(x), 1)); }
  let hex = |n: usize| -> Option<u32> {
    if rest.len() < 1 + n { return None; }
    let mut v: u32 = 0;
    for i in 0..n { v = v.checked_mul(16)?.checked_add(hexval(rest[1 + i])?)?; }
    Some(v)
  };
  match c {
    'x' => { let v = hex(2)?; if v == 0 { return None; } Some((Esc::Byte(v as u8), 3)) },   // \xHH is a raw byte
    'u' => { let v = hex(4)?; if v == 0 { return None; } Some((Esc::Ch(char::from_u32(v)?), 5)) },
    'U' => { let v = hex(8)?; if v == 0 { return None; } Some((Esc::Ch(char::from_u32(v)?), 9)) },
    '0'..='7' => {
      if rest.len() < 3 { return None; }
      let a = rest[0].to_digit(8)?; let b = rest[1].to_digit(8)?; let d = rest[2].to_digit(8)?;
      let v = a * 64 + b * 8 + d;
      if v == 0 || v > 255 { return None; }
      Some((Esc::Byte(v as u8), 3))
    },
    _ => None
  }
}

// Word splitting, quote removal and C unescaping of one command line.
pub fn split_words(line: &str) -> Result<Vec<Vec<u8>>, String> {
  let cs: Vec<char> = line.chars().collect();
  let mut words: Vec<Vec<u8>> = vec![];
  let mut i = 0;
  loop {
    while i < cs.len() && is_ws(cs[i]) { i += 1; }
    if i >= cs.len() { break; }
    let mut w: Vec<u8> = Vec::new();
    let mut quote: Option<char> = None;
    loop {
      if i >= cs.len() {
        if quote.is_some() { return Err(format!("unterminated {} quote", quote.unwrap())); }
        break;
      }
      let c = cs[i];
      if c == '\\' {
        if i + 1 >= cs.len() { return Err("trailing backslash".to_string()); }
        match unescape_one(&cs[i + 1..]) {
          Some((Esc::Ch(x), n)) => { push_char(&mut w, x); i += 1 + n; },
          Some((Esc::Byte(b), n)) => { w.push(b); i += 1 + n; },
          None => { w.push(b'\\'); push_char(&mut w, cs[i + 1]); i += 2; }   // unknown escape: kept as is (systemd warns)
        }
        continue;
      }
      match quote {
        None => {
          if c == '\'' || c == '"' { quote = Some(c); i += 1; }
          else if is_ws(c) { break; }
          else { push_char(&mut w, c); i += 1; }
        },
        Some(q) => {
          if c == q { quote = None; i += 1; }
          else { push_char(&mut w, c); i += 1; }
        }
      }
    }
    words.push(w);
  }
  Ok(words)
}

// unit specifiers of systemd.unit(5)
const SPECIFIERS: &str = "aAbBCdDEfgGhHiIjJlLmMnNopPqsStTuUvVwWyY";

pub fn expand_specifiers(w: &[u8]) -> Vec<u8> {
  let mut out: Vec<u8> = Vec::new();
  let mut i = 0;
  while i < w.len() {
    if w[i] == b'%' && i + 1 < w.len() {
      let n = w[i + 1];
      if n == b'%' { out.push(b'%'); i += 2; continue; }
      if n == b'I' { out.extend_from_slice(INSTANCE_TOKEN.as_bytes()); i += 2; continue; }
      if n < 128 && SPECIFIERS.contains(n as char) { out.extend_from_slice(format!("<specifier-{}>", n as char).as_bytes()); i += 2; continue; }
      out.push(b'%'); out.push(n); i += 2; continue;
    }
    out.push(w[i]);
    i += 1;
  }
  out
}

fn is_name_start(c: u8) -> bool { c.is_ascii_alphabetic() || c == b'_' }
fn is_name_char(c: u8) -> bool { c.is_ascii_alphanumeric() || c == b'_' }

// $ expansion against an empty environment. None = the word disappears (a whole-word $VAR).
pub fn expand_env(cs: &[u8]) -> Option<Vec<u8>> {
  if cs.len() >= 2 && cs[0] == b'$' && is_name_start(cs[1]) && cs[1..].iter().all(|c| is_name_char(*c)) {
    return None;
  }
  let mut out: Vec<u8> = Vec::new();
  let mut i = 0;
  while i < cs.len() {
    if cs[i] == b'$' && i + 1 < cs.len() {
      if cs[i + 1] == b'$' { out.push(b'$'); i += 2; continue; }
      if cs[i + 1] == b'{' {
        // ${NAME}, ${NAME:-default}, ${NAME:+alternative}
        if let Some(close) = cs[i + 2..].iter().position(|c| *c == b'}') {
          let inner: &[u8] = &cs[i + 2..i + 2 + close];
          let name_len = inner.iter().take_while(|c| is_name_char(**c)).count();
          if name_len > 0 && is_name_start(inner[0]) {
            let rest = &inner[name_len..];
            if rest.is_empty() { i += 3 + close; continue; }
            if rest.starts_with(b":-") { out.extend_from_slice(&rest[2..]); i += 3 + close; continue; }
            if rest.starts_with(b":+") { i += 3 + close; continue; }
          }
          // any other body: systemd takes everything up to the first '}' as the variable name, finds nothing, and
          // erases the reference (it does not nest and does not validate the name)
          i += 3 + close;
          continue;
        }
      }
    }
    out.push(cs[i]);
    i += 1;
  }
  Some(out)
}

// The [Service] ExecStart= value of a unit text (line continuation with a trailing backslash handled).
pub fn find_exec_start(unit: &str) -> Result<String, String> {
  let mut lines: Vec<String> = vec![];
  let mut cur = String::new();
  let mut continuing = false;
  for raw in unit.split(|c| c == '\n' || c == '\r') {
    let l = raw.to_string();
    let t = l.trim_start();
    // comment lines are skipped, also in the middle of a continued line (systemd.syntax(7))
    if t.starts_with('#') || t.starts_with(';') { continue; }
    if l.ends_with('\\') {
      cur.push_str(&l[..l.len() - 1]); cur.push(' '); continuing = true;
    }
    else { cur.push_str(&l); lines.push(std::mem::take(&mut cur)); continuing = false; }
  }
  if !cur.is_empty() { lines.push(cur); }
  let mut section = String::new();
  let mut found: Vec<String> = vec![];
  for l in &lines {
    let t = l.trim();
    if t.starts_with('[') && t.ends_with(']') { section = t.to_string(); continue; }
    if section == "[Service]" {
      if let Some(eq) = l.find('=') {
        if l[..eq].trim() == "ExecStart" { found.push(l[eq + 1..].to_string()); }
      }
    }
  }
  if found.len() != 1 { return Err(format!("{} ExecStart= lines in [Service]", found.len())); }
  Ok(found.remove(0))
}

pub fn decode(unit: &str) -> Decoded {
  let line = match find_exec_start(unit) { Ok(l) => l, Err(e) => return Decoded::Invalid(e) };
  let words = match split_words(&line) { Ok(w) => w, Err(e) => return Decoded::Invalid(e) };
  let mut argv = vec![];
  for w in words {
    let w2 = expand_specifiers(&w);
    if let Some(w3) = expand_env(&w2) { argv.push(w3); }
  }
  Decoded::Argv(argv)
}

pub fn expected_argv(patterns: &[String]) -> Vec<Vec<u8>> {
  let mut v: Vec<Vec<u8>> = vec!["/usr/bin/totalmapper", "remap", "--verbose", "--layout-file", "/etc/totalmapper.json", "--only-if-keyboard"].iter().map(|s| s.as_bytes().to_vec()).collect();
  for p in patterns { v.push(b"--exclude".to_vec()); v.push(p.as_bytes().to_vec()); }
  v.push(b"--dev-file".to_vec());
  v.push(format!("/{}", INSTANCE_TOKEN).into_bytes());
  v
}

pub fn show(argv: &[Vec<u8>]) -> Vec<String> { argv.iter().map(|w| String::from_utf8_lossy(w).to_string()).collect() }

fn check_patterns(patterns: &[String]) -> Option<String> {
  let refs: Vec<&str> = patterns.iter().map(|s| s.as_str()).collect();
  let unit = crate::udev_utils::verif::build_service_text(&refs);
  let want = expected_argv(patterns);
  match decode(&unit) {
    Decoded::Argv(got) => if got == want { None } else {
      let line = find_exec_start(&unit).unwrap_or_default();
      Some(format!("ExecStart line {:?} decodes to {:?}, expected {:?}", line, show(&got), show(&want)))
    },
    Decoded::Invalid(why) => {
      let line = find_exec_start(&unit).unwrap_or_default();
      Some(format!("ExecStart line {:?} is invalid for systemd ({}); expected argv {:?}", line, why, show(&want)))
    }
  }
}

// The unit file as it lands on disk: the real write_systemd_service writes /etc/systemd/system/totalmapper@.service (a tmpfs
// over /etc in a private mount namespace), the file is read back and its ExecStart line decoded.  Files are written one
// after the other into the same path, long lists before short ones, so whatever an earlier save leaves behind shows.
const UNIT_PATH: &str = "/etc/systemd/system/totalmapper@.service";
fn check_unit_file(out: &mut ShardOut, patterns: &[String], kind: &str) {
  out.count("unit_files_written_and_read_back");
  out.count(kind);
  let refs: Vec<&str> = patterns.iter().map(|s| s.as_str()).collect();
  let want = expected_argv(patterns);
  let msg = match crate::udev_utils::verif::write_systemd_service(&refs) {
    Err(e) => Some(format!("writing the unit file failed: {}", e)),
    Ok(()) => match std::fs::read(UNIT_PATH) {
      Err(e) => Some(format!("the unit file cannot be read back: {}", e)),
      Ok(bytes) => match String::from_utf8(bytes) {
        Err(_) => Some("the unit file is not UTF-8".to_string()),
        Ok(unit) => {
          let n_exec = unit.lines().filter(|l| l.trim_start().starts_with("ExecStart=")).count();
          if n_exec != 1 { Some(format!("the unit file on disk has {} ExecStart lines", n_exec)) }
          else { match decode(&unit) {
            Decoded::Argv(got) => if got == want { None } else { Some(format!("the unit file on disk decodes to {:?}, expected {:?}", show(&got), show(&want))) },
            Decoded::Invalid(why) => Some(format!("the unit file on disk is invalid for systemd ({}); expected argv {:?}", why, show(&want)))
          } }
        }
      }
    }
  };
  if let Some(m) = msg {
    out.violation(Violation { property: "C17".to_string(), clause: "unit-file".to_string(), signature: "C17:unit-file-on-disk".to_string(), message: m,
      replay: json!({ "engine": "systemd", "property": "C17", "patterns": patterns, "on_disk": true }) });
  }
}

fn signature_for(patterns: &[String]) -> String {
  // the smallest explanation: a character class of the patterns that already fails in a minimal pattern of its own
  let all: String = patterns.join("");
  if all.contains('\'') && check_patterns(&["'".to_string()]).is_some() { return "C17:bare-apostrophe".to_string(); }
  if all.contains('%') && check_patterns(&["%I".to_string()]).is_some() { return "C17:percent-not-doubled".to_string(); }
  if all.contains('$') && check_patterns(&["$A".to_string()]).is_some() { return "C17:dollar-not-doubled".to_string(); }
  for c in all.chars() {
    if c.is_control() && check_patterns(&[c.to_string()]).is_some() { return "C17:control-char-escape".to_string(); }
  }
  for c in all.chars() {
    if check_patterns(&[c.to_string()]).is_some() { return format!("C17:char-U+{:04X}", c as u32); }
  }
  "C17:combination".to_string()
}

fn test(out: &mut ShardOut, patterns: Vec<String>, kind: &str) {
  out.count("patterns_lists");
  out.count(kind);
  if let Some(msg) = check_patterns(&patterns) {
    let sig = signature_for(&patterns);
    out.violation(Violation { property: "C17".to_string(), clause: "argv".to_string(), signature: sig, message: msg,
      replay: json!({ "engine": "systemd", "property": "C17", "patterns": patterns }) });
  }
}

pub const SYNTAX_CHARS: &str = " \t\n\r'\"\\%$;{}*?[]@-:+!#&|<>()~=,.aIx0sn\u{7}\u{1b}\u{7f}\u{85}\u{a0}é";

pub fn run(opts: &Opts) -> i32 {
  let mut out = ShardOut::new();
  let mut rng = Rng::new(opts.shard_seed() ^ 0xc17);
  let thorough = opts.thorough();
  // decoder self-test on lines written by hand from the manual
  let selftests: Vec<(&str, Vec<&str>)> = vec![
    ("a b  c", vec!["a", "b", "c"]),
    ("'a b' \"c d\" e\\sf", vec!["a b", "c d", "e f"]),
    ("x\\x2ay \\u00e9 \\101 \\q", vec!["x*y", "é", "A", "\\q"]),
    ("%% %I $$ ${X} $X a$X ${X:-d} b${A$${B}c", vec!["%", INSTANCE_TOKEN, "$", "", "a$X", "d", "bc"]),
    ("a'b c'd", vec!["ab cd"]),
    ("a \\\n  b \\\n# c\n  d", vec!["a", "b", "d"]),
  ];
  for (line, want) in &selftests {
    let got = decode(&format!("[Service]\nExecStart={}\n", line));
    if got != Decoded::Argv(want.iter().map(|s| s.as_bytes().to_vec()).collect()) {
      out.notes.insert("harness_error".to_string(), json!(format!("decoder self-test failed on {:?}: {:?}", line, got)));
      out.write(opts);
      return 3;
    }
  }
  if !matches!(decode("[Service]\nExecStart=a 'b\n"), Decoded::Invalid(_)) { out.write(opts); return 3; }

  // the unit file on disk needs a private /etc (not under Miri or in the tiny auxiliary runs)
  let aux = opts.num("aux", 0) == 1;
  let on_disk = if aux { false } else {
    match crate::roundtrip_mon::private_etc() {
      Ok(()) => { let ok = std::fs::create_dir_all("/etc/systemd/system").is_ok(); if ok { out.count("ran_in_private_namespace"); } ok },
      Err(why) => { out.notes.insert("namespace_unavailable".to_string(), json!(why)); false }
    }
  };
  // (1) exhaustively every Unicode scalar value except NUL as a one-character pattern (sharded by code point)
  let mut cp: u32 = 1 + opts.shard as u32;
  while cp <= (if aux { 0x2FF } else { 0x10FFFF }) {
    if let Some(c) = char::from_u32(cp) {
      test(&mut out, vec![c.to_string()], "single_scalar_values");
      if on_disk && (cp < 0x3000 || (cp >> 4) % 64 == 0) { check_unit_file(&mut out, &[c.to_string()], "unit_files_with_one_scalar"); }
      out.nontrivial(hash64(&(cp, 0u8)));
      // ... and next to a character that is written as a numeric escape, on either side (what follows or precedes
      // an escape sequence must not be read as part of it)
      if !aux || cp % 7 == 0 {
        test(&mut out, vec![format!("*{}", c)], "scalar_next_to_an_escape");
        test(&mut out, vec![format!("{}?", c)], "scalar_next_to_an_escape");
        test(&mut out, vec![format!("\u{7}{}\u{7f}", c)], "scalar_next_to_an_escape");
      }
      // ... and at either end of a pattern that is NOT the last of its list (what separates two --exclude
      // arguments must not depend on how a pattern ends or begins)
      if !aux || cp % 7 == 0 {
        test(&mut out, vec![c.to_string(), "b".to_string()], "scalar_in_a_list_position");
        test(&mut out, vec![format!("a{}", c), format!("{}b", c), "c".to_string()], "scalar_in_a_list_position");
      }
    }
    cp += opts.nshards as u32;
  }
  // (2) every pair (and in thorough every triple) over the syntax-relevant characters
  let sc: Vec<char> = SYNTAX_CHARS.chars().collect();
  let mut idx = 0u64;
  for a in &sc { for b in &sc {
    idx += 1;
    if aux && idx % 23 != 0 { continue; }
    if idx % opts.nshards != opts.shard { continue; }
    test(&mut out, vec![format!("{}{}", a, b)], "syntax_pairs");
    out.nontrivial(hash64(&(*a, *b, 1u8)));
    if thorough {
      for c in &sc { test(&mut out, vec![format!("{}{}{}", a, b, c)], "syntax_triples"); out.nontrivial(hash64(&(*a, *b, *c, 2u8))); }
    }
  } }
  // (3) random strings and lists of patterns
  let n_rand = opts.num("random", if thorough { 30_000_000 } else { 600_000 });
  let mut prev: Vec<String> = vec![];
  for _ in 0..n_rand {
    // mostly 1-4 patterns; now and then a long list (a line of several kilobytes)
    let n_pat = match rng.below(200) { 0 => rng.range(30, 150), 1 => rng.range(5, 29), x if x < 120 => 1, x if x < 160 => 2, x if x < 180 => 3, _ => 4 };
    if n_pat >= 30 { out.count("long_pattern_lists"); }
    let mut pats = vec![];
    for _ in 0..n_pat {
      let len = if n_pat >= 30 { rng.range(8, 40) } else { rng.range(1, 10) };
      let mut s = String::new();
      // comment characters and option-like starts at the beginning of a pattern
      if rng.chance(1, 8) { s.push(*rng.pick(&['#', ';', '-', '@', ':', '+', '!'])); }
      for _ in 0..len {
        let c = match rng.below(10) {
          0..=4 => *rng.pick(&sc),
          5..=6 => (b'a' + rng.below(26) as u8) as char,
          7 => char::from_u32(1 + rng.below(0x9f) as u32).unwrap_or('x'),
          _ => loop { if let Some(c) = char::from_u32(1 + rng.below(0x10FFFF) as u32) { break c; } }
        };
        s.push(c);
      }
      pats.push(s);
    }
    // a share of the cases: strings over the expansion syntax only (ordered relations between $, {, }, :, -, +, %)
    if rng.chance(1, 5) {
      let syn: Vec<char> = "${}:-+%a_I \\'\"".chars().collect();
      for p in pats.iter_mut() { let n = rng.range(2, 12); *p = (0..n).map(|_| *rng.pick(&syn)).collect(); }
      pats.retain(|p| !p.is_empty());
      if pats.is_empty() { pats.push("$".to_string()); }
    }
    // a share of the cases: the previous list again with one small change (a character replaced, inserted or dropped,
    // two patterns swapped, one repeated): consecutive related requests to the same code
    if !prev.is_empty() && rng.chance(1, 4) {
      pats = prev.clone();
      let i = rng.below(pats.len());
      let mut cs: Vec<char> = pats[i].chars().collect();
      match rng.below(5) {
        0 => { if !cs.is_empty() { let j = rng.below(cs.len()); cs[j] = *rng.pick(&sc); } }
        1 => { let j = rng.below(cs.len() + 1); cs.insert(j, *rng.pick(&sc)); }
        2 => { if cs.len() > 1 { let j = rng.below(cs.len()); cs.remove(j); } }
        3 => { let j = rng.below(pats.len()); pats.swap(i, j); cs = pats[i].chars().collect(); }
        _ => { let dup = pats[i].clone(); pats.push(dup); }
      }
      pats[i] = cs.into_iter().collect();
      out.count("lists_derived_from_the_previous_one");
    }
    // one list in 40 also goes through the real writer of the unit file and is read back from disk; the long lists always do,
    // and the list written right after a long one is therefore shorter than what is already in the file
    if on_disk && (n_pat >= 30 || rng.chance(1, 40)) { check_unit_file(&mut out, &pats, if n_pat >= 30 { "unit_files_with_long_lists" } else { "unit_files_with_short_lists" }); }
    prev = pats.clone();
    out.nontrivial(hash64(&pats));
    if out.wants_sample() && rng.chance(1, 2000) {
      let refs: Vec<&str> = pats.iter().map(|s| s.as_str()).collect();
      let unit = crate::udev_utils::verif::build_service_text(&refs);
      out.sample(json!({ "patterns": pats, "exec_start": find_exec_start(&unit).unwrap_or_default(), "decoded": match decode(&unit) { Decoded::Argv(a) => json!(show(&a)), Decoded::Invalid(w) => json!(format!("invalid: {}", w)) } }));
    }
    test(&mut out, pats, "random_lists");
  }
  // (5) patterns that spell out, literally, the escape sequences of the target syntax (what the escaper itself emits
  //     for other inputs, and everything else systemd would unescape): \a..\v, \s, \xHH for every HH, \NNN octal,
  //     \uHHHH, \UHHHHHHHH, %<letter>, $<letter>, ${...}; alone, embedded and behind one more backslash
  {
    let mut lits: Vec<String> = vec![];
    for c in "abfnrtvs\\\"'".chars() { lits.push(format!("\\{}", c)); }
    for h in 0..256u32 { lits.push(format!("\\x{:02x}", h)); lits.push(format!("\\x{:02X}", h)); lits.push(format!("\\{:03o}", h)); lits.push(format!("\\u{:04x}", h)); }
    for h in [0x100u32, 0x7ff, 0x800, 0xd7ff, 0xd800, 0xdfff, 0xe000, 0xfffd, 0xffff] { lits.push(format!("\\u{:04x}", h)); lits.push(format!("\\U{:08x}", h)); }
    for h in [0u32, 0x10000, 0x10ffff, 0x110000, 0xffffffff] { lits.push(format!("\\U{:08x}", h)); }
    for c in ('a'..='z').chain('A'..='Z').chain("%$_0{".chars()) { lits.push(format!("%{}", c)); lits.push(format!("${}", c)); lits.push(format!("${{{}}}", c)); }
    for (i, l) in lits.iter().enumerate() {
      if (i as u64) % opts.nshards != opts.shard { continue; }
      if aux && i % 17 != 0 { continue; }
      out.count("literal_escape_spellings");
      out.nontrivial(hash64(&(l, 5u8)));
      test(&mut out, vec![l.clone()], "escape_spelling_patterns");
      test(&mut out, vec![format!("a{}b", l)], "escape_spelling_patterns");
      test(&mut out, vec![format!("\\{}", l)], "escape_spelling_patterns");
      test(&mut out, vec![format!("{} {}", l, l), l.clone()], "escape_spelling_patterns");
    }
  }
  // (6) every string of four (thorough: five) characters over the characters escape sequences are made of
  {
    let al: Vec<char> = "\\xu01af%${}'\" ".chars().collect();
    let n = if thorough { 5 } else { 4 };
    let total = (al.len() as u64).pow(n);
    let mut i = opts.shard;
    while i < total {
      if !(aux && i % 101 != 0) {
        let mut x = i; let mut p = String::new();
        for _ in 0..n { p.push(al[(x % al.len() as u64) as usize]); x /= al.len() as u64; }
        out.nontrivial(hash64(&(&p, 6u8)));
        test(&mut out, vec![p], "escape_alphabet_ngrams");
      }
      i += opts.nshards;
    }
  }
  // (4) patterns that coincide with a name the implementation itself uses: the words of the unit text it writes for a
  //     harmless list, and the dictionary mined from the string literals of its sources (template fields, format
  //     placeholders, option names, paths); alone, embedded in a name, between wildcards and in pairs
  {
    let mut dict: Vec<String> = crate::dict::tokens(&[]);
    let unit = crate::udev_utils::verif::build_service_text(&["plain"]);
    for w in unit.split(|c: char| c.is_whitespace() || c == '=') { if !w.is_empty() && !dict.iter().any(|d| d == w) { dict.push(w.to_string()); } }
    out.notes.insert("dictionary_size".to_string(), json!(dict.len()));
    for (i, t) in dict.iter().enumerate() {
      if (i as u64) % opts.nshards != opts.shard { continue; }
      if aux && i % 9 != 0 { continue; }
      out.count("dictionary_tokens");
      out.nontrivial(hash64(&(t, 4u8)));
      test(&mut out, vec![t.clone()], "dictionary_patterns");
      test(&mut out, vec![format!("ACME {} Keypad", t)], "dictionary_patterns");
      test(&mut out, vec![format!("*{}*", t)], "dictionary_patterns");
      let other = rng.pick(&dict).clone();
      test(&mut out, vec![other.clone(), t.clone()], "dictionary_patterns");
      test(&mut out, vec![format!("{}{}", t, other)], "dictionary_patterns");
    }
  }
  // no patterns at all: the surrounding arguments must still be intact
  test(&mut out, vec![], "empty_list");
  out.write(opts);
  if out.n_violations() > 0 { 1 } else { 0 }
}

pub fn replay(rep: &Value, out: &mut ShardOut) -> bool {
  let pats: Vec<String> = match rep.get("patterns").and_then(|p| p.as_array()) {
    Some(a) => a.iter().filter_map(|x| x.as_str().map(|s| s.to_string())).collect(),
    None => return false
  };
  let refs: Vec<&str> = pats.iter().map(|s| s.as_str()).collect();
  let unit = crate::udev_utils::verif::build_service_text(&refs);
  out.notes.insert("exec_start".to_string(), json!(find_exec_start(&unit).unwrap_or_default()));
  out.notes.insert("decoded".to_string(), json!(match decode(&unit) { Decoded::Argv(a) => format!("{:?}", show(&a)), Decoded::Invalid(w) => format!("invalid: {}", w) }));
  if rep.get("on_disk").and_then(|b| b.as_bool()).unwrap_or(false) {
    // a long list first, so that the file already holds more than this case writes
    if crate::roundtrip_mon::private_etc().is_ok() && std::fs::create_dir_all("/etc/systemd/system").is_ok() {
      let long: Vec<String> = (0..120).map(|i| format!("pattern-number-{}-of-a-long-list", i)).collect();
      let mut scratch = ShardOut::new();
      check_unit_file(&mut scratch, &long, "replay");
      check_unit_file(out, &pats, "replay");
    }
    else { out.notes.insert("inconclusive".to_string(), json!("no private /etc")); }
  }
  test(out, pats, "replay");
  true
}
