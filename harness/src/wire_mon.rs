// C18: bytes written by the real DevInputWriter into a pipe, checked against
// records built from libc::input_event, and decoded back by the real DevInputReader
// with foreign records interleaved.

use std::mem::size_of;
use std::os::unix::io::RawFd;
use serde_json::{json, Value};
use libc::input_event;
use crate::keys::{KeyCode, Event};
use crate::keys::Event::{Pressed, Released};
use crate::dev_input_rw::{DevInputReader, DevInputWriter};
use crate::rng::Rng;
use crate::common::*;
use crate::keytable::KERNEL_KEYS;

const EV_SYN: u16 = 0;
const EV_KEY: u16 = 1;
const EV_REL: u16 = 2;
const EV_MSC: u16 = 4;
const EV_LED: u16 = 0x11;
const EV_REP: u16 = 0x14;

fn record(type_: u16, code: u16, value: i32, sec: i64, usec: i64) -> Vec<u8> {
  // field offsets, widths and the record size come from libc's struct, not from this file
  let ev = input_event { time: libc::timeval { tv_sec: sec, tv_usec: usec }, type_, code, value };
  let p = &ev as *const input_event as *const u8;
  unsafe { std::slice::from_raw_parts(p, size_of::<input_event>()) }.to_vec()
}

struct Pipe { r: RawFd, w: RawFd }

impl Pipe {
  fn new() -> Option<Pipe> {
    let mut fds = [0 as libc::c_int; 2];
    let rc = unsafe { libc::pipe2(fds.as_mut_ptr(), libc::O_NONBLOCK | libc::O_CLOEXEC) };
    if rc != 0 { return None; }
    if !cfg!(miri) { unsafe { libc::fcntl(fds[1], libc::F_SETPIPE_SZ, 1 << 20); } }
    Some(Pipe { r: fds[0], w: fds[1] })
  }
  fn drain(&self) -> Vec<u8> {
    let mut res = vec![];
    let mut buf = vec![0u8; 65536];
    loop {
      let n = unsafe { libc::read(self.r, buf.as_mut_ptr() as *mut libc::c_void, buf.len()) };
      if n <= 0 { break; }
      res.extend_from_slice(&buf[..n as usize]);
    }
    res
  }
  fn put(&self, bytes: &[u8]) -> bool {
    let mut off = 0;
    while off < bytes.len() {
      let n = unsafe { libc::write(self.w, bytes[off..].as_ptr() as *const libc::c_void, bytes.len() - off) };
      if n <= 0 { return false; }
      off += n as usize;
    }
    true
  }
}

impl Drop for Pipe { fn drop(&mut self) { unsafe { libc::close(self.r); libc::close(self.w); } } }

fn kernel_code(k: KeyCode) -> u16 { (k as i32) as u16 }

fn expected_bytes(evs: &[Event]) -> Vec<u8> {
  let mut v = vec![];
  for e in evs {
    match e {
      Pressed(k) => v.extend(record(EV_KEY, kernel_code(*k), 1, 0, 0)),
      Released(k) => v.extend(record(EV_KEY, kernel_code(*k), 0, 0, 0))
    }
  }
  v.extend(record(EV_SYN, 0, 0, 0, 0));
  v
}

fn describe_records(bytes: &[u8]) -> String {
  let sz = size_of::<input_event>();
  let mut parts = vec![];
  for c in bytes.chunks(sz) {
    if c.len() < sz { parts.push(format!("<{} stray bytes>", c.len())); break; }
    let mut ev: input_event = unsafe { std::mem::zeroed() };
    unsafe { std::ptr::copy_nonoverlapping(c.as_ptr(), &mut ev as *mut input_event as *mut u8, sz); }
    parts.push(format!("(t={}.{} type={} code={} value={})", ev.time.tv_sec, ev.time.tv_usec, ev.type_, ev.code, ev.value));
    if parts.len() > 12 { parts.push("...".to_string()); break; }
  }
  parts.join(" ")
}

fn batch_json(evs: &[Event]) -> Value { json!(evs.iter().take(40).map(ev_str).collect::<Vec<_>>()) }

// one batch through the writer; returns a violation message
fn check_writer(pipe: &Pipe, w: &mut DevInputWriter, evs: &Vec<Event>) -> Option<(String, String)> {
  if let Err(e) = w.send(evs) { return Some(("C18:writer-error".to_string(), format!("send returned {:?}", e))); }
  let got = pipe.drain();
  let want = expected_bytes(evs);
  if got != want {
    let sz = size_of::<input_event>();
    let sig = if got.len() != want.len() {
      if got.len() % sz != 0 || got.len() / sz != evs.len() + 1 { "C18:wrong-record-count-or-size" } else { "C18:wrong-length" }
    } else { "C18:wrong-record-content" };
    return Some((sig.to_string(), format!("batch [{}] ({} events): wrote {} bytes {} ; expected {} bytes {}", evs.iter().take(6).map(ev_str).collect::<Vec<_>>().join(" "), evs.len(), got.len(), describe_records(&got), want.len(), describe_records(&want))));
  }
  None
}

// foreign records the reader has to skip
fn foreign(rng: &mut Rng, unknown_codes: &[u16], keys: &[KeyCode]) -> Vec<u8> {
  let t = (rng.below(100000) as i64, rng.below(1000000) as i64);
  match rng.below(12) {
    0 => record(EV_KEY, kernel_code(*rng.pick(keys)), 2, t.0, t.1),           // auto-repeat
    1 => record(EV_MSC, 4, rng.below(255) as i32, t.0, t.1),                              // MSC_SCAN
    2 => record(EV_SYN, 0, 0, t.0, t.1),
    3 => record(EV_REL, rng.below(2) as u16, rng.below(9) as i32 - 4, t.0, t.1),
    4 => record(EV_KEY, *rng.pick(unknown_codes), rng.below(2) as i32, t.0, t.1),         // unknown key code
    5 => record(EV_LED, rng.below(3) as u16, rng.below(2) as i32, t.0, t.1),
    6 => record(EV_KEY, kernel_code(*rng.pick(keys)), *rng.pick(&[3, -1, 256, i32::MAX, i32::MIN]), t.0, t.1),
    7 => record(EV_REP, 0, 250, t.0, t.1),
    _ => record(*rng.pick(&[0u16, 0, 0, 2, 3, 4, 5, 0x11, 0x15]), rng.below(6) as u16, rng.below(4) as i32 - 1, t.0, t.1)
  }
}

fn check_reader(pipe: &Pipe, evs: &Vec<Event>, rng: &mut Rng, unknown_codes: &[u16], keys: &[KeyCode], interleave: bool, out: &mut ShardOut) -> Option<(String, String)> {
  // key records with real-looking timestamps, foreign records at random positions
  let mut bytes = vec![];
  let mut n_foreign = 0;
  for e in evs {
    if interleave { while rng.chance(2, 5) { bytes.extend(foreign(rng, unknown_codes, keys)); n_foreign += 1; } }
    let (k, v) = match e { Pressed(k) => (*k, 1), Released(k) => (*k, 0) };
    bytes.extend(record(EV_KEY, kernel_code(k), v, 1700000000 + rng.below(1000) as i64, rng.below(1000000) as i64));
    if interleave { bytes.extend(record(EV_SYN, 0, 0, 0, 0)); n_foreign += 1; }
  }
  if interleave { while rng.chance(1, 2) { bytes.extend(foreign(rng, unknown_codes, keys)); n_foreign += 1; } }
  out.add("foreign_records_interleaved", n_foreign);
  if !pipe.put(&bytes) { return Some(("harness".to_string(), "could not fill the pipe".to_string())); }
  let mut reader = DevInputReader { fd: pipe.r };
  let mut got: Vec<Event> = vec![];
  let mut calls = 0;
  loop {
    calls += 1;
    if calls > evs.len() + 5 { pipe.drain(); return Some(("C18:reader-returns-extra-events".to_string(), format!("reader returned more than the {} key events written; first extras: {:?}", evs.len(), &got[evs.len().min(got.len())..]))); }
    match reader.next() {
      Ok(e) => got.push(e),
      Err(nix::Error::Sys(nix::errno::Errno::EAGAIN)) => break,
      Err(e) => { pipe.drain(); return Some(("C18:reader-error".to_string(), format!("reader failed with {:?}", e))); }
    }
  }
  if &got != evs {
    let first = (0..std::cmp::max(got.len(), evs.len())).find(|i| got.get(*i) != evs.get(*i)).unwrap_or(0);
    let sig = if got.len() > evs.len() { "C18:reader-does-not-skip-foreign-record" } else if got.len() < evs.len() { "C18:reader-drops-key-event" } else { "C18:reader-decodes-wrong-event" };
    return Some((sig.to_string(), format!("reader returned {} events for {} written; first difference at #{}: got {:?}, written {:?}", got.len(), evs.len(), first, got.get(first), evs.get(first))));
  }
  None
}

pub fn run_case(evs: &Vec<Event>, rng: &mut Rng, out: &mut ShardOut, kind: &str, keys: &[KeyCode], unknown: &[u16]) {
  let pipe = match Pipe::new() { Some(p) => p, None => { out.count("harness_pipe_errors"); return; } };
  let mut w = DevInputWriter::verif_from_fd(pipe.w);
  out.count("batches");
  out.count(kind);
  out.add("events_written", evs.len() as u64);
  let mut fail = check_writer(&pipe, &mut w, evs);
  if fail.is_none() {
    // round trip: the writer's own bytes through the reader
    w.send(evs).ok();
    let mut reader = DevInputReader { fd: pipe.r };
    let mut got = vec![];
    loop {
      match reader.next() { Ok(e) => got.push(e), Err(_) => break }
      if got.len() > evs.len() + 2 { break; }
    }
    if &got != evs { fail = Some(("C18:round-trip-differs".to_string(), format!("writer output decoded by the reader gives {} events, {} were written", got.len(), evs.len()))); }
    pipe.drain();
  }
  if fail.is_none() { fail = check_reader(&pipe, evs, rng, unknown, keys, true, out); }
  if let Some((sig, msg)) = fail {
    if sig == "harness" { out.count("harness_pipe_errors"); return; }
    out.violation(Violation { property: "C18".to_string(), clause: "wire".to_string(), signature: sig, message: msg,
      replay: json!({ "engine": "wire", "property": "C18", "events": evs.iter().map(ev_str).collect::<Vec<_>>(), "seed": rng.clone().next_u64() }) });
  }
}

// A *session*: several batches through one writer (and one reader) on one thread, each checked as it is sent.
// State carried from one send to the next (a cached frame, a buffer that is not reset, a reader that remembers
// a partial record) shows only here.  An item can also be a send that is made to FAIL (the reader side of the pipe
// closed, a closed descriptor, a full non-blocking pipe): the sends after it must be as exact as any other.
// The replay holds the last items of the session.
#[derive(Clone)]
pub enum Item { Send(Vec<Event>), Failed(u8, Vec<Event>) }

fn item_json(it: &Item) -> Value {
  match it {
    Item::Send(b) => json!(b.iter().map(ev_str).collect::<Vec<_>>()),
    Item::Failed(kind, b) => json!({ "failed_send": kind, "events": b.iter().map(ev_str).collect::<Vec<_>>() })
  }
}

// a send that fails: 0 = EPIPE on another writer, 1 = EBADF on another writer, 2 = EAGAIN on the session's own writer (pipe full)
fn failing_send(kind: u8, evs: &Vec<Event>, pipe: &Pipe, w: &mut DevInputWriter, out: &mut ShardOut) {
  if cfg!(miri) { return; }
  let res = match kind {
    0 => { match Pipe::new() { Some(p2) => { unsafe { libc::close(p2.r); } let mut w2 = DevInputWriter::verif_from_fd(p2.w); let r = w2.send(evs); unsafe { libc::close(p2.w); } std::mem::forget(p2); r.is_err() }, None => return } }
    1 => { match Pipe::new() { Some(p2) => { let fd = p2.w; drop(p2); let mut w2 = DevInputWriter::verif_from_fd(fd); w2.send(evs).is_err() }, None => return } }
    _ => {
      // fill the session's pipe to the brim (one byte at a time at the end), send, then empty it again
      let chunk = vec![0u8; 65536];
      loop { let n = unsafe { libc::write(pipe.w, chunk.as_ptr() as *const libc::c_void, chunk.len()) }; if n <= 0 { break; } }
      loop { let n = unsafe { libc::write(pipe.w, chunk.as_ptr() as *const libc::c_void, 1) }; if n <= 0 { break; } }
      let r = w.send(evs);
      pipe.drain();
      r.is_err()
    }
  };
  out.count(if res { "failed_sends_injected" } else { "failed_sends_that_did_not_fail" });
}

pub fn run_session(items: &[Item], out: &mut ShardOut, kind: &str) -> bool {
  let pipe = match Pipe::new() { Some(p) => p, None => { out.count("harness_pipe_errors"); return true; } };
  let mut w = DevInputWriter::verif_from_fd(pipe.w);
  let mut reader = DevInputReader { fd: pipe.r };
  out.count("sessions");
  out.count(kind);
  for (bi, it) in items.iter().enumerate() {
    let evs = match it { Item::Failed(k, b) => { failing_send(*k, b, &pipe, &mut w, out); continue; }, Item::Send(b) => b };
    out.count("session_batches");
    let mut fail = check_writer(&pipe, &mut w, evs);
    if fail.is_none() {
      // the same records through the one reader of the session
      if pipe.put(&expected_bytes(evs)) {
        let mut got: Vec<Event> = vec![];
        loop { match reader.next() { Ok(e) => got.push(e), Err(_) => break } if got.len() > evs.len() + 2 { break; } }
        pipe.drain();
        if &got != evs { fail = Some(("C18:reader-decodes-wrong-event".to_string(), format!("the reader returned {:?}, the records were {:?}", got.iter().take(6).collect::<Vec<_>>(), evs.iter().take(6).collect::<Vec<_>>()))); }
      }
    }
    if let Some((sig, msg)) = fail {
      let from = bi.saturating_sub(7);
      let after_failure = items[from..bi].iter().any(|x| matches!(x, Item::Failed(..)));
      out.violation(Violation { property: "C18".to_string(), clause: "wire-session".to_string(), signature: format!("{}-after-earlier-{}", sig, if after_failure { "failed-send" } else { "batch" }),
        message: format!("item #{} of a session of {} sends through one writer: {}", bi, items.len(), msg),
        replay: json!({ "engine": "wire", "property": "C18", "session": items[from..=bi].iter().map(item_json).collect::<Vec<_>>() }) });
      return false;
    }
  }
  true
}

pub fn run(opts: &Opts) -> i32 {
  let mut out = ShardOut::new();
  let mut rng = Rng::new(opts.shard_seed() ^ 0xc18);
  let thorough = opts.thorough();
  let keys = all_key_codes();
  let unknown: Vec<u16> = (0u16..0x300).filter(|c| <KeyCode as num_traits::FromPrimitive>::from_u16(*c).is_none()).collect();
  out.notes.insert("key_codes_known".to_string(), json!(keys.len()));
  out.notes.insert("record_size".to_string(), json!(size_of::<input_event>()));

  // the numeric codes against an independent transcription of the kernel header
  if opts.shard == 0 {
    let mut matched = 0u64;
    for k in &keys {
      let name = format!("{}", k);
      let name = name.strip_prefix('K').filter(|r| r.chars().all(|c| c.is_ascii_digit()) || r.starts_with("10CHANNELS") || *r == "102ND").map(|r| r.to_string()).unwrap_or(name);
      if let Some((_, code)) = KERNEL_KEYS.iter().find(|(n, _)| *n == name) {
        matched += 1;
        if *code != kernel_code(*k) {
          out.violation(Violation { property: "C18".to_string(), clause: "kernel-code".to_string(), signature: "C18:key-code-differs-from-kernel-header".to_string(),
            message: format!("key {} is written with code {}, the kernel header says KEY_{} = {}", name, kernel_code(*k), name, code), replay: json!({ "engine": "wire", "property": "C18", "events": [format!("+{}", key_name(*k))] }) });
        }
      }
    }
    out.add("codes_matched_against_kernel_header", matched);
  }

  // (1) exhaustive: every code, press and release, alone and paired with a neighbour
  let mut idx = 0u64;
  let aux = opts.num("aux", 0) == 1;
  for (i, k) in keys.iter().enumerate() {
    if aux && i % 120 != 0 { continue; }
    for press in [true, false] {
      idx += 1;
      if idx % opts.nshards != opts.shard { continue; }
      let e = if press { Pressed(*k) } else { Released(*k) };
      run_case(&vec![e.clone()], &mut rng, &mut out, "exhaustive_single", &keys, &unknown);
      out.nontrivial(hash64(&(i, press, 0u8)));
      let nb = keys[(i + 1) % keys.len()];
      run_case(&vec![e.clone(), Released(nb)], &mut rng, &mut out, "exhaustive_pair", &keys, &unknown);
      run_case(&vec![Pressed(nb), e.clone()], &mut rng, &mut out, "exhaustive_pair", &keys, &unknown);
      out.nontrivial(hash64(&(i, press, 1u8)));
    }
  }
  // (1b) every small foreign record (type 0-5 and the LED/REP/SND types, code 0-7, value -1..2) in front of key records,
  //      inside a batch and between two batches: the reader must still return every key event
  {
    let mut idx2 = 0u64;
    for t in [0u16, 1, 2, 3, 4, 5, 0x11, 0x12, 0x14, 0x15, 0x17] { for c in 0u16..8 { for v in [-1i32, 0, 1, 2] {
      idx2 += 1;
      if idx2 % opts.nshards != opts.shard { continue; }
      if t == EV_KEY && (v == 0 || v == 1) && <KeyCode as num_traits::FromPrimitive>::from_u16(c).is_some() { continue; }   // that is a key event, not a foreign record
      let evs = vec![Pressed(KeyCode::LEFTSHIFT), Pressed(KeyCode::A), Released(KeyCode::A), Released(KeyCode::LEFTSHIFT)];
      if let Some(pipe) = Pipe::new() {
        let mut bytes = record(t, c, v, 1, 2);
        bytes.extend(record(EV_KEY, kernel_code(KeyCode::LEFTSHIFT), 1, 1, 3));
        bytes.extend(record(EV_KEY, kernel_code(KeyCode::A), 1, 1, 4));
        bytes.extend(record(EV_SYN, 0, 0, 1, 5));
        bytes.extend(record(t, c, v, 1, 6));
        bytes.extend(record(EV_KEY, kernel_code(KeyCode::A), 0, 1, 7));
        bytes.extend(record(EV_SYN, 0, 0, 1, 8));
        bytes.extend(record(EV_KEY, kernel_code(KeyCode::LEFTSHIFT), 0, 1, 9));
        bytes.extend(record(EV_SYN, 0, 0, 1, 10));
        pipe.put(&bytes);
        let mut reader = DevInputReader { fd: pipe.r };
        let mut got = vec![];
        loop { match reader.next() { Ok(e) => got.push(e), Err(_) => break } if got.len() > 8 { break; } }
        out.count("foreign_triples_swept");
        out.nontrivial(hash64(&(t, c, v, 99u8)));
        if got != evs {
          out.violation(Violation { property: "C18".to_string(), clause: "wire".to_string(), signature: "C18:reader-mishandles-a-foreign-record".to_string(),
            message: format!("a foreign record (type {}, code {}, value {}) before key records: the reader returned {:?}, the key records were {:?}", t, c, v, got, evs),
            replay: json!({ "engine": "wire", "property": "C18", "events": evs.iter().map(ev_str).collect::<Vec<_>>(), "foreign": [t, c, v] }) });
        }
      }
    } } }
  }
  // (2) the empty batch
  if opts.shard == 0 { run_case(&vec![], &mut rng, &mut out, "empty_batch", &keys, &unknown); out.nontrivial(1); }
  // (2b) every batch length from 0 to 2100 once (buffer-size boundaries of any chunked writer fall in here)
  for len in 0..=2100usize {
    if (len as u64) % opts.nshards != opts.shard { continue; }
    if aux && len % 341 != 0 && len > 12 { continue; }
    let evs: Vec<Event> = (0..len).map(|_| { let k = *rng.pick(&keys); if rng.chance(1, 2) { Pressed(k) } else { Released(k) } }).collect();
    out.nontrivial(hash64(&(len, 77u8)));
    run_case(&evs, &mut rng, &mut out, "every_length_0_to_2100", &keys, &unknown);
  }
  // (3) random batches of any length
  let n = opts.num("random", if thorough { 600000 } else { 20000 });
  for _ in 0..n {
    let len = match rng.below(10) { 0..=5 => rng.range(1, 8), 6..=8 => rng.range(9, 200), _ => rng.range(201, 2000) };
    let evs: Vec<Event> = (0..len).map(|_| { let k = *rng.pick(&keys); if rng.chance(1, 2) { Pressed(k) } else { Released(k) } }).collect();
    out.nontrivial(hash64(&evs.iter().map(ev_str).collect::<Vec<_>>()));
    if out.wants_sample() && len <= 4 {
      out.sample(json!({ "batch": batch_json(&evs), "expected_records": describe_records(&expected_bytes(&evs)) }));
    }
    run_case(&evs, &mut rng, &mut out, "random_batch", &keys, &unknown);
  }
  // (4) sessions of *related* consecutive batches.
  // (4a) sweep: a base batch of 2-3 events, then every batch that differs from it in the direction of one event and
  //      in the key of one event (any of the known keys): a pair of equal length that a weak digest of
  //      (code, value) fields cannot tell apart is somewhere in this family for multipliers up to the key range
  let n_bases = opts.num("session_bases", if thorough { 200 } else if aux { 1 } else { 16 });
  for _ in 0..n_bases {
    let n = rng.range(2, 3);
    let base: Vec<Event> = (0..n).map(|_| { let k = *rng.pick(&keys); if rng.chance(1, 2) { Pressed(k) } else { Released(k) } }).collect();
    for i in 0..n { for j in 0..n {
      let mut session: Vec<Item> = vec![];
      for (ki, k2) in keys.iter().enumerate() {
        if aux && ki % 40 != 0 { continue; }
        let mut b2 = base.clone();
        b2[i] = match &b2[i] { Pressed(k) => Released(*k), Released(k) => Pressed(*k) };
        b2[j] = match &b2[j] { Pressed(_) => Pressed(*k2), Released(_) => Released(*k2) };
        session.push(Item::Send(base.clone()));
        session.push(Item::Send(b2));
      }
      out.nontrivial(hash64(&(base.iter().map(ev_str).collect::<Vec<_>>(), i, j, 41u8)));
      out.add("related_pairs_swept", (session.len() / 2) as u64);
      run_session(&session, &mut out, "sessions_two_field_sweep");
    } }
  }
  // (4b) random sessions over a few keys: every batch is new, a repetition, a permutation or a one- or two-field
  //      mutation of the previous one
  let n_sessions = opts.num("sessions", if thorough { 150000 } else if aux { 5 } else { 4000 });
  for _ in 0..n_sessions {
    let pool: Vec<KeyCode> = { let c = *rng.pick(&keys); let mut v = vec![c]; for _ in 0..rng.range(2, 5) { v.push(if rng.chance(1, 2) { *rng.pick(&keys) } else { let near = (c as i32 + rng.below(80) as i32 - 40).max(1) as u16; <KeyCode as num_traits::FromPrimitive>::from_u16(near).unwrap_or(c) }); } v };
    let mut session: Vec<Item> = vec![];
    let mut prev: Vec<Event> = vec![];
    for _ in 0..rng.range(4, 40) {
      let mut b = prev.clone();
      match if prev.is_empty() { 0 } else { rng.below(6) } {
        0 => { b = (0..rng.range(1, 4)).map(|_| { let k = *rng.pick(&pool); if rng.chance(1, 2) { Pressed(k) } else { Released(k) } }).collect(); }
        1 => {}
        2 => { rng.shuffle(&mut b); }
        _ => { for _ in 0..rng.range(1, 2) { let i = rng.below(b.len()); b[i] = match (&b[i], rng.below(3)) {
                 (Pressed(k), 0) => Released(*k), (Released(k), 0) => Pressed(*k),
                 (Pressed(_), _) => Pressed(*rng.pick(&pool)), (Released(_), _) => Released(*rng.pick(&pool)) }; } }
      }
      // now and then a send that fails in between
      if rng.chance(1, 8) { let fb: Vec<Event> = (0..rng.range(1, 4)).map(|_| { let k = *rng.pick(&pool); if rng.chance(1, 2) { Pressed(k) } else { Released(k) } }).collect(); session.push(Item::Failed(rng.below(3) as u8, fb)); }
      session.push(Item::Send(b.clone()));
      prev = b;
    }
    out.nontrivial(hash64(&session.iter().map(|it| item_json(it).to_string()).collect::<Vec<_>>()));
    run_session(&session, &mut out, "sessions_random_related");
  }
  out.write(opts);
  if out.n_violations() > 0 { 1 } else { 0 }
}

pub fn replay(rep: &Value, out: &mut ShardOut) -> bool {
  if let Some(sess) = rep.get("session").and_then(|e| e.as_array()) {
    let parse = |a: &Vec<Value>| -> Option<Vec<Event>> { let mut v = vec![]; for x in a { v.push(x.as_str().and_then(ev_parse)?); } Some(v) };
    let mut items: Vec<Item> = vec![];
    for b in sess {
      if let Some(a) = b.as_array() { match parse(a) { Some(v) => items.push(Item::Send(v)), None => return false } }
      else if let Some(a) = b.get("events").and_then(|e| e.as_array()) { match parse(a) { Some(v) => items.push(Item::Failed(b.get("failed_send").and_then(|k| k.as_u64()).unwrap_or(0) as u8, v)), None => return false } }
      else { return false; }
    }
    run_session(&items, out, "replay");
    return true;
  }
  let evs: Vec<Event> = match rep.get("events").and_then(|e| e.as_array()) {
    Some(a) => { let mut v = vec![]; for x in a { match x.as_str().and_then(ev_parse) { Some(e) => v.push(e), None => return false } } v },
    None => return false
  };
  let mut rng = Rng::new(rep.get("seed").and_then(|s| s.as_u64()).unwrap_or(1));
  let keys = all_key_codes();
  let unknown: Vec<u16> = (0u16..0x300).filter(|c| <KeyCode as num_traits::FromPrimitive>::from_u16(*c).is_none()).collect();
  for _ in 0..20 { run_case(&evs, &mut rng, out, "replay", &keys, &unknown); }
  true
}
