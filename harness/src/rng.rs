// Small deterministic PRNG (xorshift64*), so every case is reproducible from
// (tier, seed, shard, case index).

#[derive(Clone)]
pub struct Rng {
  s: u64
}

impl Rng {
  pub fn new(seed: u64) -> Rng {
    // splitmix the seed so that small seeds give unrelated streams
    let mut z = seed.wrapping_add(0x9E3779B97F4A7C15);
    z = (z ^ (z >> 30)).wrapping_mul(0xBF58476D1CE4E5B9);
    z = (z ^ (z >> 27)).wrapping_mul(0x94D049BB133111EB);
    z = z ^ (z >> 31);
    Rng { s: if z == 0 { 0x1234_5678_9abc_def1 } else { z } }
  }

  pub fn next_u64(&mut self) -> u64 {
    let mut x = self.s;
    x ^= x >> 12;
    x ^= x << 25;
    x ^= x >> 27;
    self.s = x;
    x.wrapping_mul(0x2545F4914F6CDD1D)
  }

  // uniform in 0..n (n > 0)
  pub fn below(&mut self, n: usize) -> usize {
    ((self.next_u64() >> 11) % (n as u64)) as usize
  }

  // inclusive range
  pub fn range(&mut self, lo: usize, hi: usize) -> usize {
    lo + self.below(hi - lo + 1)
  }

  // true with probability num/den
  pub fn chance(&mut self, num: usize, den: usize) -> bool {
    self.below(den) < num
  }

  pub fn pick<'a, T>(&mut self, xs: &'a [T]) -> &'a T {
    &xs[self.below(xs.len())]
  }

  pub fn shuffle<T>(&mut self, xs: &mut Vec<T>) {
    for i in (1..xs.len()).rev() {
      let j = self.below(i + 1);
      xs.swap(i, j);
    }
  }

  // k distinct elements of xs (k <= xs.len()), in random order
  pub fn sample<T: Clone>(&mut self, xs: &[T], k: usize) -> Vec<T> {
    let mut v: Vec<T> = xs.to_vec();
    self.shuffle(&mut v);
    v.truncate(k);
    v
  }

  pub fn fork(&mut self) -> Rng {
    Rng::new(self.next_u64())
  }
}
