// Layout sources for the mapper and loop workloads: the corpus of real layouts
// (converted through the real parser + converter) and three seeded generators.

use std::collections::HashMap;
use crate::keys::{KeyCode, Layout, Mapping, Repeat};
use crate::rng::Rng;
use crate::common::*;
use KeyCode::*;

#[derive(Clone)]
pub struct LayoutCase {
  pub layout: Layout,
  pub id: u64,
  pub source: String,
  pub has_absorbing: bool,
  pub has_norepeat: bool,
  pub has_special: bool,
  pub markers: Vec<Option<KeyCode>>,   // generator B: marker key of mapping i
  pub alphabet: Vec<KeyCode>,          // keys the history generator draws from (foreign keys included)
  pub layout_keys: Vec<KeyCode>,       // every key occurring anywhere in the layout
  pub foreign: Vec<KeyCode>,           // keys of the alphabet that occur nowhere in the layout
  pub wide: bool                       // histories may hold many keys at once (generator D)
}

pub fn verif_root() -> String {
  std::env::var("VERIF_ROOT").unwrap_or("/verif".to_string())
}

pub fn layout_keys(l: &Layout) -> Vec<KeyCode> {
  let mut v = Vec::new();
  for m in &l.mappings {
    for k in m.from.iter().chain(m.to.iter()).chain(m.absorbing.iter()) { set_insert(&mut v, *k); }
    if let Repeat::Special { keys, .. } = &m.repeat { for k in keys { set_insert(&mut v, *k); } }
  }
  v
}

pub fn trigger_and_output_keys(l: &Layout) -> Vec<KeyCode> {
  let mut v = Vec::new();
  for m in &l.mappings {
    for k in m.from.iter().chain(m.to.iter()) { set_insert(&mut v, *k); }
  }
  v
}

const FOREIGN_ORDINARY: [KeyCode; 4] = [KP5, KPPLUS, SCROLLLOCK, INSERT];
const FOREIGN_MODIFIER: [KeyCode; 8] = [RIGHTMETA, RIGHTCTRL, LEFTMETA, RIGHTALT, LEFTALT, LEFTCTRL, RIGHTSHIFT, LEFTSHIFT];

pub fn make_case(layout: Layout, source: &str, markers: Vec<Option<KeyCode>>, rng: &mut Rng, max_alphabet: usize) -> LayoutCase {
  let all = layout_keys(&layout);
  let mut trig = trigger_and_output_keys(&layout);
  // big layouts: a random subset of the keys, always keeping the non-final trigger keys ("layer keys")
  if trig.len() > max_alphabet {
    let mut layer: Vec<KeyCode> = Vec::new();
    for m in &layout.mappings {
      for k in &m.from[..m.from.len() - 1] { set_insert(&mut layer, *k); }
    }
    let mut rest: Vec<KeyCode> = trig.iter().cloned().filter(|k| !layer.contains(k)).collect();
    rng.shuffle(&mut rest);
    // prefer final trigger keys
    let finals: Vec<KeyCode> = layout.mappings.iter().map(|m| *m.from.last().unwrap()).collect();
    rest.sort_by_key(|k| if finals.contains(k) { 0 } else { 1 });
    let keep = if max_alphabet > layer.len() { max_alphabet - layer.len() } else { 2 };
    // random subset of finals first, then others
    let mut fin: Vec<KeyCode> = rest.iter().cloned().filter(|k| finals.contains(k)).collect();
    let mut oth: Vec<KeyCode> = rest.iter().cloned().filter(|k| !finals.contains(k)).collect();
    rng.shuffle(&mut fin);
    rng.shuffle(&mut oth);
    let nfin = std::cmp::min(fin.len(), (keep * 3 + 3) / 4);
    let mut chosen: Vec<KeyCode> = fin[..nfin].to_vec();
    for k in oth { if chosen.len() < keep { chosen.push(k); } }
    trig = layer;
    for k in chosen { set_insert(&mut trig, k); }
  }
  let mut foreign = Vec::new();
  if rng.chance(1, 4) { let k = any_key(rng); if !is_modifier(k) && !all.contains(&k) { foreign.push(k); } }
  if foreign.is_empty() { for k in FOREIGN_ORDINARY.iter() { if !all.contains(k) { foreign.push(*k); break; } } }
  { let off = rng.below(FOREIGN_MODIFIER.len()); for i in 0..FOREIGN_MODIFIER.len() { let k = FOREIGN_MODIFIER[(i + off) % FOREIGN_MODIFIER.len()]; if !all.contains(&k) { foreign.push(k); break; } } }
  // marker keys (generator B) are pure outputs: keep only some of them in the history alphabet
  let wide = source == "genD";
  if wide { for _ in 0..10 { let k = any_key(rng); if !all.contains(&k) { set_insert(&mut foreign, k); } } }
  let mut alphabet: Vec<KeyCode> = trig.iter().cloned().filter(|k| !markers.contains(&Some(*k)) || rng.chance(1, 4)).collect();
  for k in &foreign { set_insert(&mut alphabet, *k); }
  let id = hash_str(&format!("{:?}", layout.mappings));
  LayoutCase {
    has_absorbing: layout.mappings.iter().any(|m| !m.absorbing.is_empty()),
    has_norepeat: layout.mappings.iter().any(|m| no_repeat(m)),
    has_special: layout.mappings.iter().any(|m| matches!(m.repeat, Repeat::Special { .. })),
    layout, id, source: source.to_string(), markers, alphabet, layout_keys: all, foreign, wide
  }
}

pub fn load_fancy_json(text: &str) -> Result<Layout, String> {
  let v: serde_json::Value = serde_json::from_str(text).map_err(|e| format!("json: {}", e))?;
  let f = crate::layout_parsing_formatting::parse_layout_from_json(&v)?;
  crate::fancy_layout_interpreting::convert(&f)
}

// (name, converted layout) of every corpus layout that the real loader accepts and that
// Mapper::for_layout can install.
pub fn corpus_layouts() -> Vec<(String, Layout)> {
  let mut res: Vec<(String, Layout)> = Vec::new();
  let mut names: Vec<&String> = crate::default_fancy_layouts::DEFAULT_LAYOUTS.keys().collect();
  names.sort();
  for name in names {
    let text = crate::default_fancy_layouts::DEFAULT_LAYOUTS.get(name).unwrap();
    match load_fancy_json(text) {
      Ok(l) => res.push((format!("builtin:{}", name), l)),
      Err(e) => eprintln!("corpus: builtin {} not loadable: {}", name, e)
    }
  }
  let dirs = vec![format!("{}/corpus/layouts", verif_root()), "/repo/working/syntax-examples".to_string()];
  for d in dirs {
    let mut files: Vec<std::path::PathBuf> = match std::fs::read_dir(&d) {
      Ok(rd) => rd.filter_map(|e| e.ok()).map(|e| e.path()).filter(|p| p.extension().map(|x| x == "json").unwrap_or(false)).collect(),
      Err(_) => vec![]
    };
    files.sort();
    for f in files {
      if let Ok(text) = std::fs::read_to_string(&f) {
        match load_fancy_json(&text) {
          Ok(l) => res.push((format!("file:{}", f.file_name().unwrap().to_string_lossy()), l)),
          Err(e) => eprintln!("corpus: {:?} not loadable: {}", f, e)
        }
      }
    }
  }
  // the empty layout (C05: output stream equals input stream)
  res.push(("empty".to_string(), Layout { mappings: vec![] }));
  res
}

pub fn has_duplicate(v: &[KeyCode]) -> bool {
  for i in 0..v.len() { for j in i+1..v.len() { if v[i] == v[j] { return true; } } }
  false
}

pub struct GenParams {
  pub absorbing: bool,      // allow absorbing lists
  pub norepeat: bool,       // allow Disabled / Special
  pub special_bias: bool,   // more Special mappings (C09, C11)
  pub shared_repeat: bool,  // every Special repeat of the layout has the same keys and timing
  pub max_mappings: usize
}

// Per layout only a handful of keys are drawn (small alphabets reach deep states), but across layouts every
// standard modifier, several non-modifier "layer" keys and a spread of ordinary keys occur.
const ORD: [KeyCode; 18] = [A, B, C, D, J, K, SEMICOLON, K1, K0, SPACE, ENTER, F5, UP, KPENTER, MINUS, ESC, BACKSPACE, COMPOSE];
const LAYER: [KeyCode; 5] = [CAPSLOCK, TAB, GRAVE, HENKAN, K102ND];
const MODS: [KeyCode; 8] = [LEFTSHIFT, RIGHTSHIFT, LEFTCTRL, RIGHTCTRL, LEFTALT, RIGHTALT, LEFTMETA, RIGHTMETA];
const MARKERS: [KeyCode; 12] = [F13, F14, F15, F16, F17, F18, F19, F20, F21, F22, F23, F24];
const REPEAT_KEYS: [KeyCode; 4] = [KP1, KP2, KP3, KP4];

lazy_static::lazy_static! {
  static ref ALL_KEYS: Vec<KeyCode> = all_key_codes();
  // keys whose code + 256 or + 512 is a key code too: (key, its aliases under 8-bit truncation)
  static ref ALIAS_FAMILIES: Vec<Vec<KeyCode>> = {
    let all = all_key_codes();
    let mut v = vec![];
    for k in &all {
      let c = *k as i32;
      if c >= 256 { continue; }
      let fam: Vec<KeyCode> = all.iter().cloned().filter(|x| (*x as i32) % 256 == c).collect();
      if fam.len() >= 2 { v.push(fam); }
    }
    // ... and in their low 7 bits (keys that look like one of the eight modifiers included)
    for k in &all {
      let c = *k as i32;
      if c >= 128 { continue; }
      let fam: Vec<KeyCode> = all.iter().cloned().filter(|x| (*x as i32) % 128 == c).collect();
      if fam.len() >= 2 && (is_modifier(*k) || c % 7 == 0) { v.push(fam); }
    }
    for f in v.iter_mut() { f.retain(|k| !MARKERS.contains(k) && !REPEAT_KEYS.contains(k)); }
    v.retain(|f| f.len() >= 2);
    v
  };
}

// any key code the enum knows, except the keys reserved as generator-B markers and as dedicated repeat keys
pub fn any_key(rng: &mut Rng) -> KeyCode {
  loop { let k = *rng.pick(&ALL_KEYS); if !MARKERS.contains(&k) && !REPEAT_KEYS.contains(&k) { return k; } }
}

fn gen_pool(rng: &mut Rng) -> Vec<KeyCode> {
  let mut pool: Vec<KeyCode> = Vec::new();
  let n_ord = rng.range(2, 4);
  match rng.below(10) {
    // ordinary keys from the whole key-code space (media keys, vendor keys, codes above 255 and above 561)
    0 | 1 => { for _ in 0..n_ord { let k = any_key(rng); if !is_modifier(k) { set_insert(&mut pool, k); } } if pool.is_empty() { pool.push(A); } },
    // keys that coincide in their low 8 bits
    2 => { for _ in 0..2 { let mut fam = rng.pick(&ALIAS_FAMILIES).clone(); rng.shuffle(&mut fam); for k in fam { if !is_modifier(k) && pool.len() < 5 { set_insert(&mut pool, k); } } } if pool.is_empty() { pool.push(A); } },
    _ => pool.extend_from_slice(&rng.sample(&ORD, n_ord))
  }
  let n_layer = rng.range(0, 2);
  pool.extend_from_slice(&rng.sample(&LAYER, n_layer));
  let n_mod = rng.range(1, 4);
  pool.extend_from_slice(&rng.sample(&MODS, n_mod));
  pool
}

fn gen_repeat(rng: &mut Rng, p: &GenParams, pool: &[KeyCode], idx: usize) -> Repeat {
  if !p.norepeat { return Repeat::Normal; }
  let r = rng.below(10);
  let (dis, spe) = if p.special_bias { (2, 5) } else { (2, 4) };
  if r < dis { Repeat::Disabled }
  else if r < spe {
    let mut keys: Vec<KeyCode> = Vec::new();
    let n = rng.range(1, 2);
    // possibly a modifier that may be held, then a dedicated repeat key
    if n == 2 {
      let mods: Vec<KeyCode> = pool.iter().cloned().filter(|k| is_modifier(*k)).collect();
      if !mods.is_empty() && rng.chance(3, 4) { keys.push(*rng.pick(&mods)); }
      else { keys.push(*rng.pick(pool)); }
    }
    let rk = if rng.chance(1, 3) { let k = any_key(rng); if is_modifier(k) { REPEAT_KEYS[idx % REPEAT_KEYS.len()] } else { k } } else { REPEAT_KEYS[idx % REPEAT_KEYS.len()] };
    if !keys.contains(&rk) { keys.push(rk); }
    // unique parameters per mapping so the request identifies the mapping; now and then boundary values
    // (the loop workload takes absolute values: a negative delay is outside the loop properties)
    let (d, iv) = match rng.below(12) {
      0 => (*rng.pick(&[0, 1, 65535, 65536, 70_000, 1 << 24, i32::MAX - 64]), 20 + idx as i32),
      1 => (100 + 10 * idx as i32, *rng.pick(&[1, 255, 256, 65536, 100_000, i32::MAX - 64])),
      2 => (*rng.pick(&[-1, -180, i32::MIN + 64]), *rng.pick(&[-30, 30, i32::MIN + 64])),
      _ => (100 + 10 * idx as i32, 20 + idx as i32)
    };
    // ... and in some layouts every Special repeat is the same (as in rows and in the shipped layouts)
    if p.shared_repeat { return Repeat::Special { keys: vec![REPEAT_KEYS[0]], delay_ms: 180, interval_ms: 30 }; }
    Repeat::Special { keys, delay_ms: d + idx as i32 % 7, interval_ms: iv + idx as i32 % 5 }
  }
  else { Repeat::Normal }
}

fn gen_absorbing(rng: &mut Rng, p: &GenParams, from: &[KeyCode]) -> Vec<KeyCode> {
  let mut res = Vec::new();
  if p.absorbing && from.len() > 1 && rng.chance(1, 2) {
    for k in &from[..from.len() - 1] {
      if rng.chance(2, 3) { res.push(*k); }
    }
  }
  res
}

// Generator A: arbitrary shape
pub fn gen_a(rng: &mut Rng, p: &GenParams) -> (Layout, Vec<Option<KeyCode>>) {
  let pool = gen_pool(rng);
  let n = rng.range(1, p.max_mappings);
  let mut mappings = Vec::new();
  for i in 0..n {
    let fl = std::cmp::min(pool.len(), match rng.below(10) { 0..=3 => 1, 4..=8 => 2, _ => 3 });
    let from = rng.sample(&pool, fl);
    let tl = std::cmp::min(pool.len(), match rng.below(10) { 0 => 0, 1..=5 => 1, 6..=8 => 2, _ => 3 });
    let to = rng.sample(&pool, tl);
    let repeat = gen_repeat(rng, p, &pool, i);
    let absorbing = gen_absorbing(rng, p, &from);
    mappings.push(Mapping { from, to, repeat, absorbing });
  }
  let markers = vec![None; mappings.len()];
  (Layout { mappings }, markers)
}

// Generator B: every mapping ends in its own marker key, so the fired mapping is
// visible in the emitted events
pub fn gen_b(rng: &mut Rng, p: &GenParams) -> (Layout, Vec<Option<KeyCode>>) {
  let pool = gen_pool(rng);
  let n = rng.range(1, std::cmp::min(p.max_mappings, MARKERS.len()));
  let mut mappings = Vec::new();
  let mut markers = Vec::new();
  for i in 0..n {
    let fl = std::cmp::min(pool.len(), match rng.below(10) { 0..=2 => 1, 3..=7 => 2, _ => 3 });
    let from = rng.sample(&pool, fl);
    let tl = std::cmp::min(pool.len(), match rng.below(10) { 0..=4 => 0, 5..=8 => 1, _ => 2 });
    let mut to = rng.sample(&pool, tl);
    to.push(MARKERS[i]);
    markers.push(Some(MARKERS[i]));
    let repeat = gen_repeat(rng, p, &pool, i);
    let absorbing = gen_absorbing(rng, p, &from);
    mappings.push(Mapping { from, to, repeat, absorbing });
  }
  (Layout { mappings }, markers)
}

// Generator C: layouts shaped like the shipped ones
pub fn gen_c(rng: &mut Rng, p: &GenParams) -> (Layout, Vec<Option<KeyCode>>) {
  let mut mappings: Vec<Mapping> = Vec::new();
  let palette: Vec<KeyCode> = { let n = rng.range(2, 3); rng.sample(&[LEFTSHIFT, LEFTCTRL, RIGHTALT, LEFTMETA, RIGHTCTRL, LEFTALT], n) };
  let letters = [A, B, C, D, J, K, SEMICOLON, COMMA];
  let outs = [LEFT, RIGHT, UP, EQUAL, K1, SLASH, A, B, N, PAGEDOWN, HOME];
  let mut idx = 0;
  // suppressed layer key(s) with chords
  let nl = rng.range(1, 2);
  let layers = rng.sample(&LAYER, nl);
  for l in &layers {
    if rng.chance(3, 4) { mappings.push(Mapping { from: vec![*l], to: vec![], ..Default::default() }); }
    let nch = rng.range(1, 3);
    for _ in 0..nch {
      let x = *rng.pick(&letters);
      let y = *rng.pick(&outs);
      let mut to = vec![];
      if rng.chance(1, 2) { to.push(*rng.pick(&palette)); }
      to.push(y);
      let mut from = vec![*l, x];
      if rng.chance(1, 6) { from.insert(0, *rng.pick(&[LEFTSHIFT, RIGHTSHIFT])); }
      if has_duplicate(&from) || has_duplicate(&to) { continue; }
      let repeat = gen_repeat(rng, p, &[LEFTCTRL, LEFTSHIFT], idx);
      idx += 1;
      mappings.push(Mapping { from, to, repeat, absorbing: vec![] });
    }
  }
  // single keys that produce modifier + key (J -> Ctrl+Left), a few plain remaps
  for _ in 0..rng.below(3) {
    let x = *rng.pick(&letters); let y = *rng.pick(&outs);
    if x == y { continue; }
    let to = if rng.chance(2, 3) { vec![*rng.pick(&palette), y] } else { vec![y] };
    let repeat = gen_repeat(rng, p, &[LEFTCTRL, LEFTSHIFT], idx); idx += 1;
    mappings.push(Mapping { from: vec![x], to, repeat, absorbing: vec![] });
  }
  // shift rows, absorbing, often Disabled
  if p.absorbing && rng.chance(2, 3) {
    let nsh = rng.range(1, 2);
    let shifts = rng.sample(&[LEFTSHIFT, RIGHTSHIFT], nsh);
    let nrow = rng.range(1, 3);
    let row = rng.sample(&letters, nrow);
    for x in &row {
      let y = *rng.pick(&letters);
      if rng.chance(1, 2) {
        mappings.push(Mapping { from: vec![*x], to: vec![y], repeat: if p.norepeat && rng.chance(1, 2) { Repeat::Disabled } else { Repeat::Normal }, absorbing: vec![] });
      }
      for s in &shifts {
        let outshift = if rng.chance(3, 4) { *s } else { LEFTSHIFT };
        mappings.push(Mapping {
          from: vec![*s, *x], to: vec![outshift, y],
          repeat: if p.norepeat && rng.chance(1, 2) { Repeat::Disabled } else { Repeat::Normal },
          absorbing: vec![*s]
        });
      }
    }
  }
  // modifier remap with overlays
  if rng.chance(1, 2) {
    let g = GRAVE;
    let md = if rng.chance(2, 3) { *rng.pick(&palette) } else { *rng.pick(&[LEFTMETA, LEFTALT, RIGHTCTRL, RIGHTMETA]) };
    mappings.push(Mapping { from: vec![g], to: vec![md], ..Default::default() });
    let nov = rng.range(0, 2);
    for _ in 0..nov {
      let x = *rng.pick(&letters);
      let y = *rng.pick(&outs);
      mappings.push(Mapping { from: vec![g, x], to: vec![md, y], repeat: if p.norepeat && rng.chance(1, 2) { Repeat::Disabled } else { Repeat::Normal }, absorbing: vec![] });
    }
  }
  // repeat-only style identity mappings with a Special repeat
  if p.norepeat && rng.chance(1, 2) {
    let nsp = rng.range(1, 2);
    for x in rng.sample(&letters, nsp) {
      let mut keys = vec![];
      if rng.chance(1, 2) { keys.push(LEFTCTRL); }
      keys.push(REPEAT_KEYS[idx % 4]);
      mappings.push(Mapping { from: vec![x], to: vec![x], repeat: Repeat::Special { keys, delay_ms: 150 + idx as i32, interval_ms: 25 + idx as i32 }, absorbing: vec![] });
      idx += 1;
    }
  }
  if mappings.is_empty() {
    mappings.push(Mapping { from: vec![CAPSLOCK], to: vec![], ..Default::default() });
  }
  let markers = vec![None; mappings.len()];
  (Layout { mappings }, markers)
}

// Generator E: absorbing-centric. A few modifiers M and letters x; chords [M,x] absorbing M with every kind of output
// (with or without M, modifier-only, a letter that is itself a trigger elsewhere), several chords on the same final key,
// letters used as modifiers of further chords, single-key remaps of the same letters. Cross links between absorbing
// mappings are the rule here, not the exception.
pub fn gen_e(rng: &mut Rng, p: &GenParams) -> (Layout, Vec<Option<KeyCode>>) {
  let nm = rng.range(2, 3);
  let mods = rng.sample(&MODS, nm);
  let nl = rng.range(2, 3);
  let letters = rng.sample(&[A, B, C, D, J, K, SPACE, CAPSLOCK], nl);
  let extra = *rng.pick(&[F5, UP, K1, ESC]);
  let mut mappings: Vec<Mapping> = vec![];
  let n = rng.range(2, 6);
  for i in 0..n {
    let m = *rng.pick(&mods);
    let x = *rng.pick(&letters);
    let kind = rng.below(10);
    let mp = match kind {
      // absorbing chord, output chosen from the small universe
      0..=4 => {
        let to: Vec<KeyCode> = match rng.below(7) {
          0 => vec![m, x], 1 => vec![x], 2 => vec![*rng.pick(&mods)], 3 => vec![*rng.pick(&mods), *rng.pick(&letters)],
          4 => vec![*rng.pick(&letters)], 5 => vec![extra], _ => vec![*rng.pick(&letters), *rng.pick(&mods)]
        };
        let from = if rng.chance(1, 5) { let m2 = *rng.pick(&mods); if m2 != m { vec![m, m2, x] } else { vec![m, x] } } else { vec![m, x] };
        let absorbing = if rng.chance(4, 5) { vec![m] } else { from[..from.len() - 1].to_vec() };
        Mapping { from, to, repeat: if p.norepeat && rng.chance(1, 3) { Repeat::Disabled } else { Repeat::Normal }, absorbing }
      },
      // a modifier chord on a modifier: [M1, M2] -> [M2] absorbing M1
      5 => { let m2 = *rng.pick(&mods); if m2 == m { continue; } Mapping { from: vec![m, m2], to: vec![if rng.chance(2, 3) { m2 } else { *rng.pick(&letters) }], repeat: Repeat::Normal, absorbing: if rng.chance(2, 3) { vec![m] } else { vec![] } } },
      // a letter as modifier of another chord
      6 | 7 => { let y = *rng.pick(&letters); if y == x { continue; } Mapping { from: vec![x, y], to: vec![if rng.chance(1, 2) { extra } else { *rng.pick(&letters) }], repeat: gen_repeat(rng, p, &mods, i), absorbing: if rng.chance(1, 4) { vec![x] } else { vec![] } } },
      // single-key mapping of a letter or a modifier
      _ => { let k = if rng.chance(2, 3) { x } else { m }; Mapping { from: vec![k], to: match rng.below(4) { 0 => vec![], 1 => vec![*rng.pick(&mods)], 2 => vec![*rng.pick(&mods), *rng.pick(&letters)], _ => vec![*rng.pick(&letters)] }, repeat: gen_repeat(rng, p, &mods, i), absorbing: vec![] } }
    };
    if has_duplicate(&mp.from) || has_duplicate(&mp.to) { continue; }
    mappings.push(mp);
  }
  if mappings.is_empty() { mappings.push(Mapping { from: vec![mods[0], letters[0]], to: vec![letters[0]], repeat: Repeat::Normal, absorbing: vec![mods[0]] }); }
  let markers = vec![None; mappings.len()];
  (Layout { mappings }, markers)
}

// Generator D: wide shapes - long outputs, long repeat chords, long triggers, more mappings
pub fn gen_d(rng: &mut Rng, p: &GenParams) -> (Layout, Vec<Option<KeyCode>>) {
  let mut pool = gen_pool(rng);
  for _ in 0..rng.range(4, 14) { let k = if rng.chance(1, 2) { any_key(rng) } else { *rng.pick(&ORD) }; set_insert(&mut pool, k); }
  let n = rng.range(1, 10);
  let mut mappings = Vec::new();
  for i in 0..n {
    let fl = std::cmp::min(pool.len(), match rng.below(10) { 0..=3 => 1, 4..=6 => 2, 7..=8 => rng.range(3, 4), _ => rng.range(5, 6) });
    let from = rng.sample(&pool, fl);
    let tl = std::cmp::min(pool.len(), match rng.below(10) { 0 => 0, 1..=4 => rng.range(1, 3), 5..=7 => rng.range(4, 9), _ => rng.range(10, 18) });
    let to = rng.sample(&pool, tl);
    let repeat = if !p.norepeat { Repeat::Normal } else { match rng.below(6) {
      0 | 1 => Repeat::Normal, 2 => Repeat::Disabled,
      _ => { let kl = std::cmp::min(pool.len(), match rng.below(4) { 0 => 0, 1 => 1, 2 => rng.range(2, 5), _ => rng.range(6, 12) });
             Repeat::Special { keys: rng.sample(&pool, kl), delay_ms: *rng.pick(&[0, 1, 50, 180, 1000]) + i as i32, interval_ms: *rng.pick(&[1, 7, 30, 500]) + i as i32 } }
    } };
    let absorbing = gen_absorbing(rng, p, &from);
    mappings.push(Mapping { from, to, repeat, absorbing });
  }
  let markers = vec![None; mappings.len()];
  (Layout { mappings }, markers)
}

pub fn valid_for_mapper(l: &Layout) -> bool {
  l.mappings.iter().all(|m| !m.from.is_empty() && !has_duplicate(&m.from) && !has_duplicate(&m.to))
}

// one generated case; `which` selects the generator mix
pub fn gen_case(rng: &mut Rng, p: &GenParams) -> LayoutCase {
  loop {
    let w = rng.below(20);
    let (l, markers, src) = if p.absorbing && w % 4 == 1 { let (l, m) = gen_e(rng, p); (l, m, "genE") }
      else if w < 8 { let (l, m) = gen_a(rng, p); (l, m, "genA") }
      else if w < 15 { let (l, m) = gen_b(rng, p); (l, m, "genB") }
      else if w < 19 { let (l, m) = gen_c(rng, p); (l, m, "genC") }
      else { let (l, m) = gen_d(rng, p); (l, m, "genD") };
    if !valid_for_mapper(&l) { continue; }
    return make_case(l, src, markers, rng, if src == "genD" { 26 } else { 14 });
  }
}
