// A dictionary mined from the program under test, the way coverage-guided fuzzers seed their
// mutators with the string constants of the binary: every string literal of the repository's
// own sources (the very text this harness was compiled from, embedded with include_str!),
// split into words, `{...}` groups and whole lines.  Inputs that *coincide with a name the
// implementation uses internally* (a template field, a format placeholder, an option name, a
// path) cannot be derived from a property's wording; they can be derived from the program.

use std::collections::BTreeSet;

pub const SOURCES: &[(&str, &str)] = &[
  ("udev_utils.rs", include_str!("/repo/src/udev_utils.rs")),
  ("main.rs", include_str!("/repo/src/main.rs")),
  ("remapping_loop.rs", include_str!("/repo/src/remapping_loop.rs")),
  ("keyboard_listing.rs", include_str!("/repo/src/keyboard_listing.rs")),
  ("layout_loading.rs", include_str!("/repo/src/layout_loading.rs")),
  ("layout_parsing_formatting.rs", include_str!("/repo/src/layout_parsing_formatting.rs")),
  ("fancy_layout_interpreting.rs", include_str!("/repo/src/fancy_layout_interpreting.rs")),
  ("fancy_keys.rs", include_str!("/repo/src/fancy_keys.rs")),
  ("dev_input_rw.rs", include_str!("/repo/src/dev_input_rw.rs")),
  ("key_transforms.rs", include_str!("/repo/src/key_transforms.rs")),
  ("tablet_mode_switch_reader.rs", include_str!("/repo/src/tablet_mode_switch_reader.rs")),
];

// the string literals of a Rust source text ("..." with escapes, r"..." / r#"..."#), comments skipped
pub fn string_literals(src: &str) -> Vec<String> {
  let cs: Vec<char> = src.chars().collect();
  let mut out = vec![];
  let mut i = 0;
  while i < cs.len() {
    let c = cs[i];
    if c == '/' && i + 1 < cs.len() && cs[i + 1] == '/' { while i < cs.len() && cs[i] != '\n' { i += 1; } continue; }
    if c == '/' && i + 1 < cs.len() && cs[i + 1] == '*' { i += 2; while i + 1 < cs.len() && !(cs[i] == '*' && cs[i + 1] == '/') { i += 1; } i += 2; continue; }
    if c == '\'' {
      // a char literal ('x', '\n', '\u{..}') or a lifetime
      if i + 2 < cs.len() && cs[i + 1] == '\\' { let mut j = i + 2; while j < cs.len() && cs[j] != '\'' && j < i + 12 { j += 1; } i = j + 1; continue; }
      if i + 2 < cs.len() && cs[i + 2] == '\'' { i += 3; continue; }
      i += 1; continue;
    }
    if c == 'r' && i + 1 < cs.len() && (cs[i + 1] == '"' || cs[i + 1] == '#') && (i == 0 || !(cs[i - 1].is_alphanumeric() || cs[i - 1] == '_')) {
      let mut j = i + 1; let mut hashes = 0;
      while j < cs.len() && cs[j] == '#' { hashes += 1; j += 1; }
      if j < cs.len() && cs[j] == '"' {
        j += 1; let start = j;
        'raw: while j < cs.len() {
          if cs[j] == '"' { let mut k = 0; while k < hashes && j + 1 + k < cs.len() && cs[j + 1 + k] == '#' { k += 1; } if k == hashes { break 'raw; } }
          j += 1;
        }
        out.push(cs[start..j.min(cs.len())].iter().collect());
        i = j + 1 + hashes; continue;
      }
    }
    if c == '"' {
      let mut s = String::new();
      let mut j = i + 1;
      while j < cs.len() && cs[j] != '"' {
        if cs[j] == '\\' && j + 1 < cs.len() {
          match cs[j + 1] {
            'n' => { s.push('\n'); j += 2; }, 't' => { s.push('\t'); j += 2; }, 'r' => { s.push('\r'); j += 2; }, '0' => { j += 2; },
            '\n' => { j += 2; while j < cs.len() && cs[j].is_whitespace() { j += 1; } },
            'u' => { let mut k = j + 2; let mut h = String::new(); if k < cs.len() && cs[k] == '{' { k += 1; while k < cs.len() && cs[k] != '}' { h.push(cs[k]); k += 1; } k += 1; }
                     if let Some(ch) = u32::from_str_radix(&h, 16).ok().and_then(char::from_u32) { s.push(ch); } j = k; },
            'x' => { let h: String = cs[(j + 2).min(cs.len())..(j + 4).min(cs.len())].iter().collect(); if let Some(ch) = u32::from_str_radix(&h, 16).ok().and_then(char::from_u32) { s.push(ch); } j += 4; },
            other => { s.push(other); j += 2; }
          }
        } else { s.push(cs[j]); j += 1; }
      }
      out.push(s);
      i = j + 1; continue;
    }
    i += 1;
  }
  out
}

// words, brace groups and short whole lines of the literals of the named source files (all files when `files` is empty)
pub fn tokens(files: &[&str]) -> Vec<String> {
  let mut set: BTreeSet<String> = BTreeSet::new();
  for (name, text) in SOURCES {
    if !files.is_empty() && !files.contains(name) { continue; }
    for lit in string_literals(text) {
      for line in lit.lines() {
        let t = line.trim();
        if !t.is_empty() && t.chars().count() <= 60 { set.insert(t.to_string()); }
        for w in line.split_whitespace() {
          if w.chars().count() <= 40 { set.insert(w.to_string()); }
          // around '=' and ',' as well (unit-file keys, option=value)
          for part in w.split(|c| c == '=' || c == ',') { if !part.is_empty() && part.chars().count() <= 40 { set.insert(part.to_string()); } }
        }
        // every {...} group (format placeholders, template fields)
        let cs: Vec<char> = line.chars().collect();
        let mut i = 0;
        while i < cs.len() {
          if cs[i] == '{' { if let Some(off) = cs[i..].iter().position(|c| *c == '}') { if off <= 30 { set.insert(cs[i..=i + off].iter().collect()); } } }
          i += 1;
        }
      }
    }
  }
  set.into_iter().filter(|s| !s.contains('\0')).collect()
}

// the whole dictionary, computed once per process
pub fn all() -> &'static Vec<String> {
  static ALL: std::sync::OnceLock<Vec<String>> = std::sync::OnceLock::new();
  ALL.get_or_init(|| tokens(&[]))
}
