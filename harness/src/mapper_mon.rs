// Online monitors for the key state machine (C01-C09, C19).
//
// The real Mapper is driven through its public API (step / release_all); the
// monitors keep their own picture of the physical keyboard (IN) and of the
// virtual keyboard (OUT, the fold of every emitted event) and read the mapper's
// state only through the cfg(ellbur_totalmapper_verif) snapshot hook.

use std::collections::{HashMap, HashSet};
use serde_json::{json, Value};
use crate::keys::{KeyCode, Event, Layout, Mapping, Repeat};
use crate::keys::Event::{Pressed, Released};
use crate::key_transforms::{Mapper, StepResult, ResultingRepeat, VerifState};
use crate::rng::Rng;
use crate::common::*;
use crate::layouts::*;

#[derive(Clone, Default)]
pub struct Flags {
  pub c01: bool, pub c02: bool, pub c03: bool, pub c04: bool, pub c05: bool,
  pub c06: bool, pub c07: bool, pub c08: bool, pub c09: bool, pub c19: bool
}

impl Flags {
  pub fn for_prop(p: &str) -> Flags {
    let mut f = Flags::default();
    match p {
      "C01" => f.c01 = true, "C02" => f.c02 = true, "C03" => f.c03 = true, "C04" => f.c04 = true,
      "C05" => f.c05 = true, "C06" => f.c06 = true, "C07" => f.c07 = true, "C08" => f.c08 = true,
      "C09" => f.c09 = true, "C19" => f.c19 = true,
      "ALL" => { f = Flags { c01: true, c02: true, c03: true, c04: true, c05: true, c06: true, c07: true, c08: true, c09: true, c19: true }; },
      _ => ()
    }
    f
  }
}

#[derive(Clone)]
struct Armed {
  m: KeyCode,            // the absorbed modifier
  t: KeyCode,            // the key whose press fired the absorbing mapping
  mapping: Mapping,
  h: Vec<KeyCode>,       // physically held set right after the firing
  premise3: bool         // nothing but release(T) has happened since the firing
}

#[derive(Clone)]
pub struct MonState {
  pub in_set: Vec<KeyCode>,
  pub out_set: Vec<KeyCode>,
  pub hist: Vec<Op>,
  fired_since_rest: bool,
  c02d_pairs: Vec<(KeyCode, u64)>,
  shadow: VerifState,
  c07_watch: bool,
  armed: Vec<Armed>,
  limbo: Vec<KeyCode>,
  ever_armed: Vec<KeyCode>,
  repeat_pending: bool,
  // the monitor's own record of the mappings in effect: fired (per the hook) and no trigger key released since;
  // the "mentioned by a mapping in effect" clause of C03 is judged against it as well as against the mapper's list
  in_effect: Vec<Mapping>
}

fn sorted(v: &[KeyCode]) -> Vec<KeyCode> { let mut x = v.to_vec(); x.sort(); x }

// identity of the monitor's own state, history excluded (two histories that agree on this and on the mapper state
// are indistinguishable for every monitor from here on)
pub fn mon_key(st: &MonState) -> u64 {
  let armed: Vec<(KeyCode, KeyCode, u64, Vec<KeyCode>, bool)> = {
    let mut a: Vec<_> = st.armed.iter().map(|a| (a.m, a.t, mapping_hash(&a.mapping), sorted(&a.h), a.premise3)).collect();
    a.sort();
    a
  };
  let mut pairs = st.c02d_pairs.clone();
  pairs.sort();
  hash64(&(sorted(&st.in_set), sorted(&st.out_set), st.fired_since_rest, pairs, state_hash(&st.shadow), st.c07_watch, armed, sorted(&st.limbo), sorted(&st.ever_armed), st.repeat_pending, { let mut e: Vec<u64> = st.in_effect.iter().map(mapping_hash).collect(); e.sort(); e }))
}

pub fn fresh_state() -> VerifState {
  VerifState {
    input_pressed_keys: vec![], active_mappings: vec![], pass_through_keys: vec![],
    mapped_output_keys: vec![], mapped_absorbed_keys: vec![], absorbing_trigger: None, repeating_trigger: None
  }
}

impl MonState {
  pub fn new() -> MonState {
    MonState {
      in_set: vec![], out_set: vec![], hist: vec![], fired_since_rest: false, c02d_pairs: vec![],
      shadow: fresh_state(), c07_watch: false, armed: vec![], limbo: vec![], ever_armed: vec![],
      repeat_pending: false, in_effect: vec![]
    }
  }
}

pub fn state_hash(s: &VerifState) -> u64 {
  use std::hash::{Hash, Hasher};
  let mut h = std::collections::hash_map::DefaultHasher::new();
  s.input_pressed_keys.hash(&mut h);
  0xffu8.hash(&mut h);
  for m in &s.active_mappings {
    m.from.hash(&mut h); m.to.hash(&mut h); m.absorbing.hash(&mut h);
    match &m.repeat {
      Repeat::Normal => 0u8.hash(&mut h),
      Repeat::Disabled => 1u8.hash(&mut h),
      Repeat::Special { keys, delay_ms, interval_ms } => { 2u8.hash(&mut h); keys.hash(&mut h); delay_ms.hash(&mut h); interval_ms.hash(&mut h); }
    }
  }
  0xfeu8.hash(&mut h);
  s.pass_through_keys.hash(&mut h);
  0xfdu8.hash(&mut h);
  s.mapped_output_keys.hash(&mut h);
  0xfcu8.hash(&mut h);
  s.mapped_absorbed_keys.hash(&mut h);
  s.absorbing_trigger.hash(&mut h);
  s.repeating_trigger.hash(&mut h);
  h.finish()
}

fn mapping_hash(m: &Mapping) -> u64 { hash_str(&format!("{:?}", m)) }

fn is_subsequence(a: &[Mapping], b: &[Mapping]) -> bool {
  // is a a subsequence of b?
  let mut j = 0;
  for x in a {
    loop {
      if j >= b.len() { return false; }
      if &b[j] == x { j += 1; break; }
      j += 1;
    }
  }
  true
}

pub struct Engine<'a> {
  pub case: &'a LayoutCase,
  pub flags: Flags,
  pub mapper: Mapper,
  shadow_mapper: Mapper,
  probe_real: Mapper,
  probe_fresh: Mapper,
  pub st: MonState,
  n_out_by: HashMap<KeyCode, usize>,
  single_noout: Vec<KeyCode>,
  fresh_hash: u64,
  seen_rest_fp: HashSet<u64>,
  probe_rng: Rng
}

pub struct StepReport {
  pub events: Vec<Event>,
  pub violations: Vec<Violation>,
  pub post_hash: u64,
  pub acted: bool,
  pub fired: bool
}

impl<'a> Engine<'a> {
  pub fn new(case: &'a LayoutCase, flags: Flags) -> Engine<'a> {
    let l = &case.layout;
    let mut n_out_by: HashMap<KeyCode, usize> = HashMap::new();
    for m in &l.mappings { for k in &m.to { *n_out_by.entry(*k).or_insert(0) += 1; } }
    let mut single_noout = Vec::new();
    for m in &l.mappings {
      if m.from.len() == 1 && !n_out_by.contains_key(&m.from[0]) { set_insert(&mut single_noout, m.from[0]); }
    }
    Engine {
      case, flags,
      mapper: Mapper::for_layout(l), shadow_mapper: Mapper::for_layout(l),
      probe_real: Mapper::for_layout(l), probe_fresh: Mapper::for_layout(l),
      st: MonState::new(), n_out_by, single_noout,
      fresh_hash: state_hash(&fresh_state()), seen_rest_fp: HashSet::new(),
      probe_rng: Rng::new(case.id ^ 0x5eed)
    }
  }

  pub fn reset(&mut self) {
    self.mapper.verif_restore(&fresh_state());
    self.st = MonState::new();
  }

  pub fn save(&self) -> (VerifState, MonState) { (self.mapper.verif_snapshot(), self.st.clone()) }
  pub fn load(&mut self, s: &(VerifState, MonState)) {
    self.mapper.verif_restore(&s.0);
    self.st = s.1.clone();
  }

  fn layout(&self) -> &'a Layout { &self.case.layout }

  fn replay_obj(&self, prop: &str) -> Value {
    json!({
      "engine": "mapper", "property": prop, "source": self.case.source,
      "layout": serde_json::to_value(&self.case.layout).unwrap(),
      "layout_text": layout_str(&self.case.layout),
      "markers": self.case.markers.iter().map(|m| m.map(key_name)).collect::<Vec<_>>(),
      "ops": self.st.hist.iter().map(op_str).collect::<Vec<_>>()
    })
  }

  fn viol(&self, prop: &str, clause: &str, signature: &str, message: String) -> Violation {
    Violation {
      property: prop.to_string(), clause: clause.to_string(), signature: signature.to_string(),
      message, replay: self.replay_obj(prop)
    }
  }

  // Apply one operation to the real mapper and run every enabled monitor on it.
  pub fn apply(&mut self, op: &Op, out: &mut ShardOut) -> StepReport {
    let pre = self.mapper.verif_snapshot();
    let in_before = self.st.in_set.clone();
    let out_before = self.st.out_set.clone();
    let (events, repeat): (Vec<Event>, Option<ResultingRepeat>) = match op {
      Op::P(k) => { let r = self.mapper.step(Pressed(*k)); (r.events, Some(r.repeat)) },
      Op::R(k) => { let r = self.mapper.step(Released(*k)); (r.events, Some(r.repeat)) },
      Op::RA => (self.mapper.release_all(), None)
    };
    let post = self.mapper.verif_snapshot();
    self.st.hist.push(op.clone());
    out.count("steps");

    let mut violations: Vec<Violation> = Vec::new();
    macro_rules! report { ($v:expr) => { { let v = $v; if !violations.iter().any(|x: &Violation| x.signature == v.signature) { violations.push(v); } } } }

    // ---- fold OUT (C19 is the strict reading of the same fold) ----
    let mut dup_release_in_step: Vec<KeyCode> = vec![];
    {
      let mut released_here: Vec<KeyCode> = vec![];
      for e in &events {
        match e {
          Pressed(k) => {
            if self.st.out_set.contains(k) {
              if self.flags.c19 {
                report!(self.viol("C19", "press-of-down-key", "C19:press-of-down-key",
                  format!("Pressed({}) emitted while it is already down on the virtual keyboard; step events: {}", key_name(*k), evs_str(&events))));
              }
            }
            set_insert(&mut self.st.out_set, *k);
          },
          Released(k) => {
            if !self.st.out_set.contains(k) {
              if released_here.contains(k) { dup_release_in_step.push(*k); }
              if self.flags.c19 {
                let n_sharing = pre.active_mappings.iter().filter(|m| key_producing(m) && m.to.len() > 1 && m.to.iter().any(|x| is_modifier(*x)) && m.to.contains(k)).count();
                let sig = if released_here.contains(k) && n_sharing >= 2 && matches!(op, Op::P(_)) {
                  "C19:release-of-up-key:shared-output-released-once-per-mapping"
                } else { "C19:release-of-up-key" };
                report!(self.viol("C19", "release-of-up-key", sig,
                  format!("Released({}) emitted while it is up on the virtual keyboard; step events: {}", key_name(*k), evs_str(&events))));
              }
            }
            released_here.push(*k);
            set_remove(&mut self.st.out_set, *k);
          }
        }
      }
    }
    // ---- update IN ----
    match op {
      Op::P(k) => set_insert(&mut self.st.in_set, *k),
      Op::R(k) => set_remove(&mut self.st.in_set, *k),
      Op::RA => self.st.in_set.clear()
    }
    let in_after = self.st.in_set.clone();
    let out_after = self.st.out_set.clone();

    // ---- derived facts ----
    let (key, is_press) = match op { Op::P(k) => (Some(*k), true), Op::R(k) => (Some(*k), false), Op::RA => (None, false) };
    let acted = match op {
      Op::P(k) => !pre.input_pressed_keys.contains(k),
      Op::R(k) => pre.input_pressed_keys.contains(k),
      Op::RA => !pre.input_pressed_keys.is_empty()
    };
    let fired: Option<Mapping> = if is_press && !is_subsequence(&post.active_mappings, &pre.active_mappings) {
      post.active_mappings.last().cloned()
    } else { None };
    let post_hash = state_hash(&post);
    let pre_hash = state_hash(&pre);
    let case_id = self.case.id;
    let op_hash = hash_str(&op_str(op));
    let case_key = move |tag: u64| -> u64 { hash64(&(case_id, pre_hash, op_hash, tag)) };
    if fired.is_some() { self.st.fired_since_rest = true; out.count("firings"); }
    if acted { out.count("acted_steps"); }
    if matches!(op, Op::RA) { out.count("release_all_calls"); }
    // (updated at the end of apply; the clauses below see the list as it was before this step)
    // (kept only where it is judged: C03, layouts without absorbing; elsewhere an absorbed key's ignored release would let it grow)
    let in_effect_after: Vec<Mapping> = if !(self.flags.c03 && !self.case.has_absorbing) { vec![] } else {
      let mut v = self.st.in_effect.clone();
      match op {
        Op::P(_) => { if acted { if let Some(m) = &fired { if !v.contains(m) { v.push(m.clone()); } } } },
        Op::R(k) => { if acted { v.retain(|m| !m.from.contains(k)); } },
        Op::RA => v.clear()
      }
      v
    };

    // ---- C19: bookkeeping == device ----
    if self.flags.c19 {
      let mut book: Vec<KeyCode> = post.pass_through_keys.clone();
      book.extend_from_slice(&post.mapped_output_keys);
      if has_duplicate(&book) {
        report!(self.viol("C19", "bookkeeping-duplicate", "C19:bookkeeping-duplicate",
          format!("a key is recorded twice in the mapper's held lists: pass_through={:?} mapped_output={:?}", post.pass_through_keys, post.mapped_output_keys)));
      }
      if !same_set(&book, &out_after) {
        report!(self.viol("C19", "bookkeeping-mismatch", "C19:bookkeeping-mismatch",
          format!("mapper records {:?}+{:?} as held but the fold of emitted events holds {:?}", post.pass_through_keys, post.mapped_output_keys, out_after)));
      }
      // antecedent: >= 2 mappings in effect sharing an output key
      let mut sharing = false;
      for i in 0..pre.active_mappings.len() { for j in i+1..pre.active_mappings.len() {
        if pre.active_mappings[i].to.iter().any(|k| pre.active_mappings[j].to.contains(k)) { sharing = true; }
      } }
      if sharing { out.count("c19_steps_with_shared_output_in_effect"); out.nontrivial(case_key(19)); }
      if !events.is_empty() { out.count("c19_nonempty_steps"); }
    }

    // ---- C01 ----
    if self.flags.c01 {
      if in_after.is_empty() {
        out.count("rest_points");
        if self.st.fired_since_rest { out.count("c01_rest_after_firing"); out.nontrivial(case_key(1)); }
        if !out_after.is_empty() {
          report!(self.viol("C01", "stuck-key", "C01:stuck-key",
            format!("nothing is held on the input but {:?} still held on the output", out_after.iter().map(|k| key_name(*k)).collect::<Vec<_>>())));
        }
      }
    }

    // ---- C02 ----
    if self.flags.c02 {
      // (a)
      for k in &out_after {
        if !in_after.contains(k) {
          let justified = self.layout().mappings.iter().any(|m| m.to.contains(k) && subset(&m.from, &in_after));
          if !justified {
            report!(self.viol("C02", "a", "C02a:unjustified-output-key",
              format!("{} is held on the output but is neither held on the input ({:?}) nor an output of a mapping whose trigger is fully held", key_name(*k), in_after)));
          }
        }
      }
      // (b)
      for e in &events {
        if let Pressed(k) = e {
          if self.single_noout.contains(k) {
            report!(self.viol("C02", "b", "C02b:suppressed-key-pressed",
              format!("{} has a single-key mapping and is in no mapping's output, yet Pressed({}) was emitted", key_name(*k), key_name(*k))));
          }
        }
      }
      // (c)
      if !is_press {
        if events.iter().any(|e| matches!(e, Pressed(_))) {
          report!(self.viol("C02", "c", "C02c:press-caused-by-release",
            format!("input {} produced a press: {}", op_str(op), evs_str(&events))));
        }
        if acted { out.count("c02_acted_releases"); }
      }
      // (d), at onset
      let mut now: Vec<(KeyCode, u64)> = vec![];
      for m in &post.active_mappings {
        for f in &m.from {
          if out_after.contains(f) && !post.active_mappings.iter().any(|m2| m2.to.contains(f)) {
            let pair = (*f, mapping_hash(m));
            if !self.st.c02d_pairs.contains(&pair) {
              let f3 = pre.mapped_output_keys.contains(f) && post.pass_through_keys.contains(f)
                && !pre.mapped_absorbed_keys.is_empty() && fired.as_ref() == Some(m);
              let sig = if f3 { "C02d:absorbed-release-hands-new-trigger-key-back" } else { "C02d:trigger-key-held-on-output" };
              report!(self.viol("C02", "d", sig,
                format!("mapping {} is in effect and its trigger key {} is held on the output although no mapping in effect outputs it", mapping_str(m), key_name(*f))));
            }
            now.push(pair);
          }
        }
      }
      self.st.c02d_pairs = now;
      if !post.active_mappings.is_empty() && !post.pass_through_keys.is_empty() { out.count("c02_steps_mapping_and_passthrough"); out.nontrivial(case_key(2)); }
      if fired.is_some() && !pre.active_mappings.is_empty() { out.count("c02_firings_while_other_in_effect"); }
    }

    // ---- C03 (layouts without absorbing) ----
    if self.flags.c03 && !self.case.has_absorbing {
      if let Op::P(k) = op {
        if !in_before.contains(k) {
          if !acted { out.count("harness_desync_c03"); }
          else {
            let mut held = in_before.clone();
            held.push(*k);
            let cands: Vec<usize> = (0..self.layout().mappings.len()).filter(|i| {
              let m = &self.layout().mappings[*i];
              m.from.last() == Some(k) && subset(&m.from, &held)
            }).collect();
            out.count("c03_presses");
            if cands.len() >= 2 { out.count("c03_presses_with_2plus_candidates"); out.nontrivial(case_key(3)); }
            if !pre.active_mappings.is_empty() { out.count("c03_presses_with_mapping_in_effect"); out.nontrivial(case_key(33)); }
            match cands.last() {
              Some(ei) => {
                let e = &self.layout().mappings[*ei];
                if fired.as_ref() != Some(e) {
                  report!(self.viol("C03", "which-fires", "C03:wrong-mapping-fired",
                    format!("press of {} with {:?} held: expected the last-listed satisfied mapping {} to fire, mapper fired {}", key_name(*k), in_before, mapping_str(e),
                      fired.as_ref().map(mapping_str).unwrap_or("nothing".to_string()))));
                }
                else {
                  // marker keys (generator B)
                  if let Some(Some(mk)) = self.case.markers.get(*ei) {
                    let pressed_markers: Vec<KeyCode> = events.iter().filter_map(|ev| match ev { Pressed(x) if self.case.markers.contains(&Some(*x)) => Some(*x), _ => None }).collect();
                    if pressed_markers != vec![*mk] {
                      report!(self.viol("C03", "marker", "C03:marker-mismatch",
                        format!("mapping {} fired but the distinguished output keys pressed in the step are {:?}", mapping_str(e), pressed_markers)));
                    }
                    out.count("c03_marker_checks");
                  }
                  for o in &e.to {
                    let pressed_now = events.contains(&Pressed(*o));
                    if !is_modifier(*o) {
                      if !pressed_now {
                        report!(self.viol("C03", "outputs-pressed", "C03:output-key-not-pressed",
                          format!("mapping {} fired but its non-modifier output {} has no press event in the step: {}", mapping_str(e), key_name(*o), evs_str(&events))));
                      }
                    }
                    else if !pressed_now && !out_before.contains(o) {
                      report!(self.viol("C03", "outputs-pressed", "C03:output-modifier-not-pressed",
                        format!("mapping {} fired but its modifier output {} was neither down nor pressed: {}", mapping_str(e), key_name(*o), evs_str(&events))));
                    }
                  }
                  if matches!(e.repeat, Repeat::Normal) && !subset(&e.to, &out_after) {
                    report!(self.viol("C03", "outputs-held", "C03:normal-output-not-held",
                      format!("normal-repeat mapping {} fired but at the end of the step only {:?} is held", mapping_str(e), out_after)));
                  }
                }
              },
              None => {
                if fired.is_some() {
                  report!(self.viol("C03", "which-fires", "C03:fired-without-candidate",
                    format!("press of {} with {:?} held: no mapping qualifies but {} fired", key_name(*k), in_before, mapping_str(fired.as_ref().unwrap()))));
                }
                else {
                  let mentioned_hook = pre.active_mappings.iter().any(|m| m.from.contains(k) || m.to.contains(k));
                  let mentioned_mon = self.st.in_effect.iter().any(|m| m.from.contains(k) || m.to.contains(k));
                  if mentioned_mon && !mentioned_hook { out.count("c03_mentions_seen_only_by_the_monitor"); }
                  let mentioned = mentioned_hook || mentioned_mon;
                  if mentioned {
                    out.count("c03_presses_mentioned_by_mapping_in_effect");
                    if !events.is_empty() {
                      report!(self.viol("C03", "mentioned", "C03:mentioned-key-emitted",
                        format!("{} is mentioned by a mapping in effect, nothing should be emitted, got {}", key_name(*k), evs_str(&events))));
                    }
                  }
                  else if events.last() != Some(&Pressed(*k)) {
                    report!(self.viol("C03", "pass-through", "C03:not-passed-through-last",
                      format!("{} has no qualifying mapping and is not mentioned by a mapping in effect; expected Pressed({}) as last event, got {}", key_name(*k), key_name(*k), evs_str(&events))));
                  }
                }
              }
            }
          }
        }
      }
    }

    // ---- C04 (layouts without absorbing) ----
    if self.flags.c04 && !self.case.has_absorbing {
      if let Some(f) = &fired {
        if key_producing(f) {
          let last = *f.to.last().unwrap();
          if let Some(idx) = events.iter().rposition(|e| *e == Pressed(last)) {
            let mut at: Vec<KeyCode> = out_before.clone();
            for e in &events[..idx] {
              match e { Pressed(k) => set_insert(&mut at, *k), Released(k) => set_remove(&mut at, *k) }
            }
            out.count("c04_instants");
            let others: Vec<&Mapping> = pre.active_mappings.iter().collect();
            if others.iter().any(|m| m.to.iter().any(|k| is_modifier(*k))) { out.count("c04_instants_with_modifier_carrying_mapping_in_effect"); out.nontrivial(case_key(4)); }
            for o in &f.to {
              if is_modifier(*o) && !at.contains(o) {
                report!(self.viol("C04", "own-modifiers", "C04:own-modifier-not-down",
                  format!("mapping {} fired: at Pressed({}) its modifier {} is not down; events {}", mapping_str(f), key_name(last), key_name(*o), evs_str(&events))));
              }
            }
            for d in &at {
              if is_modifier(*d) && !f.to.contains(d) {
                let phys = in_after.contains(d) && !f.from.contains(d);
                let remap = others.iter().any(|m| ends_in_modifier(m) && m.to.contains(d));
                if !phys && !remap {
                  report!(self.viol("C04", "stale-modifier", "C04:stale-modifier",
                    format!("mapping {} fired: at Pressed({}) modifier {} is down but is neither a held non-trigger key nor the output of a held modifier-remapping; events {}", mapping_str(f), key_name(last), key_name(*d), evs_str(&events))));
                }
              }
            }
          }
        }
      }
    }

    // ---- C05 ----
    if self.flags.c05 {
      // (a) foreign keys
      for f in &self.case.foreign {
        let n_p = events.iter().filter(|e| **e == Pressed(*f)).count();
        let n_r = events.iter().filter(|e| **e == Released(*f)).count();
        let goes_down = *op == Op::P(*f) && !in_before.contains(f);
        if goes_down { out.count("c05a_foreign_presses"); if !pre.active_mappings.is_empty() { out.count("c05a_foreign_presses_with_mapping_in_effect"); out.nontrivial(case_key(5)); } }
        if n_p != (if goes_down { 1 } else { 0 }) {
          report!(self.viol("C05", "a", "C05a:foreign-key-press-count",
            format!("foreign key {}: {} press events in step {} (expected {})", key_name(*f), n_p, op_str(op), if goes_down { 1 } else { 0 })));
        }
        let own_release = *op == Op::R(*f) || *op == Op::RA;
        let norepeat_fire = !is_modifier(*f) && fired.as_ref().map(|m| no_repeat(m)).unwrap_or(false);
        if n_r > 0 && !own_release && !norepeat_fire {
          report!(self.viol("C05", "a", "C05a:foreign-key-lifted",
            format!("foreign key {} released by step {} ({})", key_name(*f), op_str(op), evs_str(&events))));
        }
        if *op == Op::R(*f) && out_before.contains(f) && n_r != 1 {
          report!(self.viol("C05", "a", "C05a:foreign-key-not-released",
            format!("foreign key {} was down and physically released, {} release events", key_name(*f), n_r)));
        }
        if n_r > 1 {
          report!(self.viol("C05", "a", "C05a:foreign-key-released-twice", format!("foreign key {} released {} times in one step", key_name(*f), n_r)));
        }
      }
      // (b) empty layout
      if self.layout().mappings.is_empty() {
        if let Some(k) = key {
          let expect: Vec<Event> = if acted { vec![ if is_press { Pressed(k) } else { Released(k) } ] } else { vec![] };
          out.count("c05b_empty_layout_steps");
          if events != expect {
            report!(self.viol("C05", "b", "C05b:empty-layout-not-identity",
              format!("empty layout, step {}: emitted {} expected {}", op_str(op), evs_str(&events), evs_str(&expect))));
          }
        }
      }
      if !self.case.has_absorbing {
        // (c)
        if let Op::R(k) = op {
          if acted {
            let mut nontriv = false;
            for e in &events {
              if let Released(o) = e {
                let ok1 = o == k || pre.active_mappings.iter().any(|m| m.from.contains(k) && m.to.contains(o));
                if !ok1 {
                  report!(self.viol("C05", "c", "C05c:release-lifts-unrelated-key",
                    format!("release of {} lifted {} which is neither that key nor an output of a mapping triggered by it; events {}", key_name(*k), key_name(*o), evs_str(&events))));
                }
                if post.active_mappings.iter().any(|m| m.to.contains(o)) {
                  report!(self.viol("C05", "c", "C05c:release-lifts-output-of-mapping-still-in-effect",
                    format!("release of {} lifted {} which a mapping remaining in effect outputs; events {}", key_name(*k), key_name(*o), evs_str(&events))));
                }
              }
            }
            if pre.active_mappings.len() >= 2 { nontriv = true; }
            if nontriv { out.count("c05c_releases_with_2plus_mappings_in_effect"); out.nontrivial(case_key(55)); }
          }
        }
        // (d)
        if acted && key.is_some() {
          for m in &pre.active_mappings {
            if !post.active_mappings.contains(m) { continue; }
            for o in &m.to {
              if self.n_out_by.get(o) != Some(&1) || !out_before.contains(o) { continue; }
              let cond1 = ends_in_modifier(m) && is_modifier(*o);
              let cond2 = matches!(m.repeat, Repeat::Normal) && !m.to.iter().any(|x| is_modifier(*x))
                && !fired.as_ref().map(|f| no_repeat(f)).unwrap_or(false);
              if cond1 || cond2 {
                out.count("c05d_obligations");
                if fired.is_some() { out.count("c05d_obligations_during_firing"); out.nontrivial(case_key(555)); }
                if events.contains(&Released(*o)) {
                  report!(self.viol("C05", "d", "C05d:output-of-mapping-in-effect-lifted",
                    format!("{} stays in effect across step {} but its exclusive output {} was released: {}", mapping_str(m), op_str(op), key_name(*o), evs_str(&events))));
                }
              }
            }
          }
        }
      }
    }

    // ---- C06 ----
    if self.flags.c06 {
      self.shadow_mapper.verif_restore(&self.st.shadow);
      let (sev, srep): (Vec<Event>, Option<ResultingRepeat>) = match op {
        Op::P(k) => { let r = self.shadow_mapper.step(Pressed(*k)); (r.events, Some(r.repeat)) },
        Op::R(k) => { let r = self.shadow_mapper.step(Released(*k)); (r.events, Some(r.repeat)) },
        Op::RA => (self.shadow_mapper.release_all(), None)
      };
      if sev != events || srep != repeat {
        report!(self.viol("C06", "continuation", "C06:differs-from-fresh-mapper",
          format!("since the last rest/release-all a fresh mapper answers {} -> [{}] {:?}, the real one [{}] {:?}", op_str(op), evs_str(&sev), srep, evs_str(&events), repeat)));
      }
      self.st.shadow = self.shadow_mapper.verif_snapshot();
      let reset_point = in_after.is_empty();   // rest, or just after release-all (IN is cleared there)
      if reset_point {
        if matches!(op, Op::RA) {
          if !pre.active_mappings.is_empty() { out.count("c06_release_all_with_mapping_in_effect"); out.nontrivial(case_key(6)); }
          if events.iter().any(|e| matches!(e, Pressed(_))) {
            report!(self.viol("C06", "release-all", "C06:release-all-emits-press", format!("release_all emitted {}", evs_str(&events))));
          }
        }
        if !out_after.is_empty() {
          report!(self.viol("C06", "nothing-held", "C06:held-after-reset",
            format!("after {} nothing is held on the input but {:?} is held on the output", op_str(op), out_after)));
        }
        out.count("c06_reset_points");
        if post_hash != self.fresh_hash {
          out.count("c06_reset_points_with_residual_state");
          out.nontrivial(hash64(&(self.case.id, post_hash, 66u64)));
          if self.seen_rest_fp.insert(post_hash) && violations.is_empty() {
            // probe continuations from this residual state against a fresh mapper
            if let Some(v) = self.probe(&post, out) { report!(v); }
          }
        }
        self.st.shadow = fresh_state();
      }
    }

    // ---- C07 ----
    if self.flags.c07 {
      let mut handled = false;
      if let Some(f) = &fired {
        if no_repeat(f) {
          handled = true;
          out.count("c07_norepeat_firings");
          if out_before.iter().any(|k| !is_modifier(*k)) { out.count("c07_norepeat_firings_with_action_key_down_before"); out.nontrivial(case_key(7)); }
          for o in &f.to {
            let ok = events.contains(&Pressed(*o)) || (is_modifier(*o) && out_before.contains(o));
            if !ok {
              report!(self.viol("C07", "outputs-pressed", "C07:output-not-pressed",
                format!("no-repeat mapping {} fired but output {} was not pressed in the step: {}", mapping_str(f), key_name(*o), evs_str(&events))));
            }
          }
          if let Some(k) = out_after.iter().find(|k| !is_modifier(**k)) {
            report!(self.viol("C07", "held-after-firing", "C07:repeatable-key-held-after-no-repeat-firing",
              format!("no-repeat mapping {} fired and {} is still held on the output; events {}", mapping_str(f), key_name(*k), evs_str(&events))));
          }
          self.st.c07_watch = true;
        }
      }
      if !handled {
        if is_press && acted { self.st.c07_watch = false; }
        else if self.st.c07_watch {
          out.count("c07_watched_followup_steps");
          if let Some(k) = out_after.iter().find(|k| !is_modifier(**k)) {
            report!(self.viol("C07", "held-later", "C07:repeatable-key-held-again-before-next-press",
              format!("after a no-repeat firing, step {} left {} held on the output; events {}", op_str(op), key_name(*k), evs_str(&events))));
          }
        }
      }
    }

    // ---- C08 ----
    if self.flags.c08 && self.case.has_absorbing {
      match op {
        Op::RA => { self.st.armed.clear(); self.st.limbo.clear(); },
        Op::R(k) => {
          self.st.armed.retain(|a| a.m != *k);
          self.st.limbo.retain(|x| x != k);
          for a in self.st.armed.iter_mut() { if a.t != *k { a.premise3 = false; } }
        },
        Op::P(k) => {
          if in_before.contains(k) {
            // physical duplicate: "pressed again" for an absorbed modifier => no obligation until released
            if self.st.armed.iter().any(|a| a.m == *k) {
              self.st.armed.retain(|a| a.m != *k);
              set_insert(&mut self.st.limbo, *k);
              out.count("c08_dup_press_of_absorbed_modifier");
            }
            for a in self.st.armed.iter_mut() { a.premise3 = false; }
          }
          else {
            let armed_now = self.st.armed.clone();
            for a in &armed_now {
              if *k != a.t {
                out.count("c08_presses_of_other_key_while_armed");
                out.nontrivial(case_key(8));
                // (1)
                if let Some(f) = &fired {
                  if f.from.contains(&a.m) {
                    let sig = if pre.absorbing_trigger == Some(*k) { "C08.1:absorbing-trigger-slot-overwritten" } else { "C08.1:absorbed-modifier-used-by-later-key" };
                    report!(self.viol("C08", "1", sig,
                      format!("{} was absorbed by {} (trigger {}) and is still held, yet the press of {} fired {} which requires it", key_name(a.m), mapping_str(&a.mapping), key_name(a.t), key_name(*k), mapping_str(f))));
                  }
                }
                // (2)
                let mut at: Vec<KeyCode> = out_before.clone();
                for e in &events {
                  match e {
                    Pressed(x) => {
                      if !is_modifier(*x) && at.contains(&a.m) && !post.active_mappings.iter().any(|m| m.to.contains(&a.m)) {
                        let f4 = fired.as_ref().map(|f| f.to.contains(x) && ends_in_modifier(f)).unwrap_or(false);
                        // F5 family: the pressed key is the (overwritten) trigger slot, so the absorbed modifiers are not lifted
                        let f5 = pre.absorbing_trigger == Some(*k);
                        let sig = if f4 { "C08.2:output-ending-in-modifier-not-treated-as-key-producing" } else if f5 { "C08.2:absorbing-trigger-slot-overwritten" } else { "C08.2:absorbed-modifier-down-at-key-press" };
                        report!(self.viol("C08", "2", sig,
                          format!("{} was absorbed (trigger {}) and is still held; the press of {} put {} on the output while {} is down there; events {}", key_name(a.m), key_name(a.t), key_name(*k), key_name(*x), key_name(a.m), evs_str(&events))));
                      }
                      set_insert(&mut at, *x);
                    },
                    Released(x) => set_remove(&mut at, *x)
                  }
                }
              }
              else {
                // (3)
                if a.premise3 && same_set(&in_after, &a.h) {
                  out.count("c08_trigger_pressed_again_first");
                  out.nontrivial(case_key(88));
                  if fired.as_ref() != Some(&a.mapping) {
                    // F5: the single trigger slot is shared; re-pressing it un-hides a modifier absorbed for another trigger
                    // (the pressed key sits in the trigger slot, and the mapping that fired instead requires a key of the mapper's
                    // absorbed list other than M, i.e. one absorbed by another mapping)
                    let unhides_other = pre.absorbing_trigger == Some(*k) && fired.as_ref().map(|f| pre.mapped_absorbed_keys.iter().any(|x| *x != a.m && f.from.contains(x))).unwrap_or(false);
                    let sig = if unhides_other { "C08.3:absorbing-trigger-slot-overwritten" } else { "C08.3:same-trigger-does-not-refire" };
                    if std::env::var("TMVERIF_DEBUG").is_ok() {
                      eprintln!("DEBUG c08.3 sig={} pre.trigger={:?} k={:?} armed_now={:?} hist_len={} in_before={:?} pre={:?}", sig, pre.absorbing_trigger, k,
                        armed_now.iter().map(|b| format!("{:?}@{:?}/{}", b.m, b.t, b.premise3)).collect::<Vec<_>>(), self.st.hist.len(), in_before, pre);
                    }
                    report!(self.viol("C08", "3", sig,
                      format!("{} absorbed {}; {} was released and pressed again before any other key with the same keys held, but {} fired", mapping_str(&a.mapping), key_name(a.m), key_name(a.t),
                        fired.as_ref().map(mapping_str).unwrap_or("nothing".to_string()))));
                  }
                }
              }
            }
            // clause (3) speaks about the first press of the trigger after its release: if another mapping fired there, the chain is over
            for a in self.st.armed.iter_mut() { if a.t != *k || fired.as_ref() != Some(&a.mapping) { a.premise3 = false; } }
            // (4) counts again
            if self.st.armed.is_empty() && self.st.limbo.is_empty() {
              if !same_set(&in_before, &pre.input_pressed_keys) { out.count("c08_in_desync_when_nothing_armed"); }
              else {
                let mut held = in_before.clone();
                held.push(*k);
                let e = self.layout().mappings.iter().filter(|m| m.from.last() == Some(k) && subset(&m.from, &held)).last();
                if let Some(e) = e {
                  if e.from.iter().any(|x| self.st.ever_armed.contains(x)) { out.count("c08_counts_again_checks"); out.nontrivial(case_key(888)); }
                }
                if fired.as_ref() != e {
                  report!(self.viol("C08", "4", "C08.4:modifier-does-not-count-again",
                    format!("no absorbed modifier is outstanding; press of {} with {:?} held should fire {} but fired {}", key_name(*k), in_before,
                      e.map(mapping_str).unwrap_or("nothing".to_string()), fired.as_ref().map(mapping_str).unwrap_or("nothing".to_string()))));
                }
              }
            }
          }
          // arming: any press the mapper acts on (a physical duplicate of a forgotten key included)
          if let Some(f) = &fired {
            for m in &f.absorbing {
              if self.st.limbo.contains(m) { continue; }
              self.st.armed.retain(|a| a.m != *m);
              self.st.armed.push(Armed { m: *m, t: *k, mapping: f.clone(), h: in_after.clone(), premise3: true });
              set_insert(&mut self.st.ever_armed, *m);
              out.count("c08_absorbing_firings");
            }
          }
        }
      }
    }

    // ---- C09 ----
    if self.flags.c09 {
      if let Some(rep) = &repeat {
        let expected = if !acted { ResultingRepeat::NoChange }
          else {
            match &fired {
              Some(Mapping { repeat: Repeat::Special { keys, delay_ms, interval_ms }, .. }) =>
                ResultingRepeat::Repeating { keys: keys.clone(), delay_ms: *delay_ms, interval_ms: *interval_ms },
              _ => ResultingRepeat::Disabled
            }
          };
        if !acted {
          if self.st.repeat_pending { out.count("c09_ignored_events_while_repeat_pending"); out.nontrivial(case_key(9)); }
          if !events.is_empty() {
            report!(self.viol("C09", "ignored-emits", "C09:ignored-event-emits",
              format!("{} is ignored by the mapper (its own held set is {:?}) but emitted {}", op_str(op), pre.input_pressed_keys, evs_str(&events))));
          }
        }
        else if self.st.repeat_pending { out.count("c09_acted_events_while_repeat_pending"); out.nontrivial(case_key(99)); }
        if matches!(expected, ResultingRepeat::Repeating { .. }) { out.count("c09_special_firings"); out.nontrivial(case_key(999)); }
        if *rep != expected {
          let sig = match (&expected, rep) {
            (ResultingRepeat::NoChange, _) => "C09:ignored-event-changes-repeat",
            (ResultingRepeat::Repeating { .. }, _) => "C09:special-firing-wrong-request",
            (ResultingRepeat::Disabled, ResultingRepeat::NoChange) => "C09:acted-event-does-not-cancel",
            (ResultingRepeat::Disabled, _) => "C09:repeat-started-without-special-firing"
          };
          report!(self.viol("C09", "repeat-request", sig,
            format!("step {}: repeat request {:?}, expected {:?} (acted={}, fired={})", op_str(op), rep, expected, acted, fired.as_ref().map(mapping_str).unwrap_or("nothing".to_string()))));
        }
        match rep {
          ResultingRepeat::Repeating { .. } => self.st.repeat_pending = true,
          ResultingRepeat::Disabled => self.st.repeat_pending = false,
          ResultingRepeat::NoChange => ()
        }
      }
      else { self.st.repeat_pending = false; }
    }

    if in_after.is_empty() { self.st.fired_since_rest = false; }

    self.st.in_effect = in_effect_after;
    StepReport { events, violations, post_hash, acted, fired: fired.is_some() }
  }

  // C06: from a residual rest state, K random continuations against a fresh mapper.
  fn probe(&mut self, rest_state: &VerifState, out: &mut ShardOut) -> Option<Violation> {
    let fresh = fresh_state();
    for _ in 0..8 {
      self.probe_real.verif_restore(rest_state);
      self.probe_fresh.verif_restore(&fresh);
      let mut held: Vec<KeyCode> = vec![];
      let len = self.probe_rng.range(2, 8);
      let mut ops: Vec<Op> = vec![];
      for _ in 0..len {
        let press = held.is_empty() || (held.len() < 4 && self.probe_rng.chance(2, 3));
        let op = if press {
          let k = *self.probe_rng.pick(&self.case.alphabet);
          if held.contains(&k) { Op::R(k) } else { Op::P(k) }
        } else { Op::R(*self.probe_rng.pick(&held)) };
        match &op { Op::P(k) => held.push(*k), Op::R(k) => set_remove(&mut held, *k), _ => () }
        ops.push(op.clone());
        let (a, b) = match &op {
          Op::P(k) => (self.probe_real.step(Pressed(*k)), self.probe_fresh.step(Pressed(*k))),
          Op::R(k) => (self.probe_real.step(Released(*k)), self.probe_fresh.step(Released(*k))),
          Op::RA => unreachable!()
        };
        out.count("c06_probe_steps");
        if a != b {
          let mut v = self.viol("C06", "probe", "C06:differs-from-fresh-mapper",
            format!("from the rest state reached by the history, continuation {:?}: real mapper answers {:?}, fresh mapper {:?}", ops.iter().map(op_str).collect::<Vec<_>>(), a, b));
          // replay = history to the rest point + the probe continuation
          if let Some(arr) = v.replay.get_mut("ops").and_then(|x| x.as_array_mut()) {
            for o in &ops { arr.push(Value::String(op_str(o))); }
          }
          return Some(v);
        }
      }
      out.count("c06_probes");
    }
    None
  }
}

// ---------- workload ----------

struct WalkParams {
  n_max: usize,
  max_len: usize
}

fn next_op(rng: &mut Rng, case: &LayoutCase, in_set: &[KeyCode], wp: &WalkParams, unwinding: bool) -> Op {
  // ill-formed event
  if rng.chance(1, 12) {
    if !in_set.is_empty() && rng.chance(1, 2) { return Op::P(*rng.pick(in_set)); }
    let unheld: Vec<KeyCode> = case.alphabet.iter().cloned().filter(|k| !in_set.contains(k)).collect();
    if !unheld.is_empty() { return Op::R(*rng.pick(&unheld)); }
  }
  if rng.chance(1, 50) { return Op::RA; }
  let want_press = if unwinding { false } else if in_set.len() >= wp.n_max { false } else if in_set.is_empty() { true } else { rng.chance(3, 5) };
  if want_press {
    let unheld: Vec<KeyCode> = case.alphabet.iter().cloned().filter(|k| !in_set.contains(k)).collect();
    if !unheld.is_empty() { return Op::P(*rng.pick(&unheld)); }
  }
  if !in_set.is_empty() { Op::R(*rng.pick(in_set)) }
  else { Op::P(*rng.pick(&case.alphabet)) }
}

struct Explorer<'a> {
  eng: Engine<'a>,
  frontier: Vec<(VerifState, MonState)>,
  seen: HashSet<u64>,
  trans: HashSet<u64>
}

// Runs `walks` random walks on one layout. Returns false if a violation stopped it.
fn explore_layout(case: &LayoutCase, flags: &Flags, walks: usize, wp: &WalkParams, rng: &mut Rng, out: &mut ShardOut, known: &[String]) {
  let mut ex = Explorer { eng: Engine::new(case, flags.clone()), frontier: vec![], seen: HashSet::new(), trans: HashSet::new() };
  // wide layouts: histories with many keys held at once
  let wide_wp = WalkParams { n_max: 20, max_len: wp.max_len * 2 };
  let wp = if case.wide { out.count("wide_layouts"); &wide_wp } else { wp };
  out.count("layouts");
  out.count(&format!("layouts_{}", case.source.split(':').next().unwrap()));
  let mut violations_here = 0;
  for w in 0..walks {
    // half of the walks continue from a rarely visited saved state
    if !ex.frontier.is_empty() && rng.chance(1, 2) {
      let i = rng.below(ex.frontier.len());
      let s = ex.frontier[i].clone();
      ex.eng.load(&s);
      out.count("walks_from_frontier");
    }
    else { ex.eng.reset(); }
    out.count("walks");
    let len = rng.range(wp.max_len / 3, wp.max_len);
    let mut unwinding = false;
    let mut steps = 0;
    let mut sample_trace: Vec<Value> = vec![];
    let want_sample = out.wants_sample() && w == walks / 2;
    loop {
      if steps >= len { unwinding = true; }
      if unwinding && ex.eng.st.in_set.is_empty() { break; }
      if steps >= len + 3 * wp.n_max + 20 { break; }
      if !unwinding && rng.chance(1, 25) { unwinding = true; }   // return to rest several times
      let op = next_op(rng, case, &ex.eng.st.in_set, wp, unwinding);
      let pre_in_empty = ex.eng.st.in_set.is_empty();
      let rep = ex.eng.apply(&op, out);
      steps += 1;
      if want_sample { sample_trace.push(json!({ "in": op_str(&op), "out": evs_str(&rep.events) })); }
      if unwinding && ex.eng.st.in_set.is_empty() && steps < len { unwinding = false; }
      let mut stop = false;
      for v in rep.violations {
        if !known.contains(&v.signature) { stop = true; }
        out.violation(v);
      }
      if stop { violations_here += 1; break; }
      let th = hash64(&(rep.post_hash, 0u8));
      if ex.seen.insert(rep.post_hash) {
        out.count("distinct_states");
        if ex.eng.st.hist.len() <= 200 {
          if ex.frontier.len() < 256 { ex.frontier.push(ex.eng.save()); }
          else { let i = rng.below(256); ex.frontier[i] = ex.eng.save(); }
        }
      }
      if ex.trans.insert(hash64(&(rep.post_hash, op_str(&op), steps == 0 && pre_in_empty))) { out.count("distinct_transitions"); }
      let _ = th;
    }
    if want_sample && !sample_trace.is_empty() {
      out.sample(json!({ "layout_source": case.source, "layout": layout_str(&case.layout), "history_and_outputs": sample_trace }));
    }
    if violations_here >= 3 { break; }
  }
}

// Breadth-first enumeration of every reachable (mapper state, monitor state) of a small layout with at most n_max keys
// held: every operation (each fresh press, each release, each ill-formed press/release, release-all) is applied once in
// every such state, with all monitors of the property on. Completes when the frontier empties below the bound.
fn explore_exhaustive(case: &LayoutCase, flags: &Flags, n_max: usize, max_states: usize, out: &mut ShardOut, known: &[String]) -> bool {
  let mut eng = Engine::new(case, flags.clone());
  let mut seen: HashSet<(u64, u64)> = HashSet::new();
  let mut queue: std::collections::VecDeque<(VerifState, MonState)> = std::collections::VecDeque::new();
  eng.reset();
  let s0 = eng.save();
  seen.insert((state_hash(&s0.0), mon_key(&s0.1)));
  queue.push_back(s0);
  out.count("exhaustive_layouts");
  // operations: every trigger key of the layout (any key of any `from`), one foreign key of each kind, release-all.
  // Keys that are only outputs are left to the random walks: pressing them physically multiplies the state space.
  let mut keys: Vec<KeyCode> = vec![];
  for m in &case.layout.mappings { for k in &m.from { set_insert(&mut keys, *k); } }
  // ... except one or two of them, chosen per layout (a physically pressed output key is a case of its own)
  {
    let mut outs: Vec<KeyCode> = vec![];
    for m in &case.layout.mappings { for k in &m.to { if !keys.contains(k) && !case.markers.contains(&Some(*k)) { set_insert(&mut outs, *k); } } }
    let pick = (case.id % 7) as usize;
    for (i, k) in outs.iter().enumerate() { if keys.len() < 9 && (i == pick % outs.len().max(1) || (i + 1 == outs.len() && case.id % 3 == 0)) { set_insert(&mut keys, *k); } }
  }
  for k in &case.foreign { if keys.len() < 10 { set_insert(&mut keys, *k); } }
  let mut ops: Vec<Op> = vec![];
  for k in &keys { ops.push(Op::P(*k)); ops.push(Op::R(*k)); }
  ops.push(Op::RA);
  let mut bad = 0;
  while let Some(st) = queue.pop_front() {
    for op in &ops {
      // at most n_max keys held: a fresh press is skipped when the bound is reached (ill-formed presses are not)
      if let Op::P(k) = op { if !st.1.in_set.contains(k) && st.1.in_set.len() >= n_max { continue; } }
      eng.load(&st);
      let rep = eng.apply(op, out);
      out.count("exhaustive_transitions");
      let mut stop = false;
      for v in rep.violations { if !known.contains(&v.signature) { stop = true; } out.violation(v); }
      if stop { bad += 1; if bad >= 3 { return false; } continue; }
      let key = (rep.post_hash, mon_key(&eng.st));
      if seen.insert(key) {
        out.count("exhaustive_states");
        if seen.len() > max_states { out.count("exhaustive_layouts_bound_hit"); return false; }
        let nx = eng.save();
        queue.push_back(nx);
      }
    }
  }
  out.count("exhaustive_layouts_completed");
  true
}

fn gen_params_for(prop: &str, rng: &mut Rng, thorough: bool) -> GenParams {
  let max_mappings = if thorough { 7 } else { 6 };
  match prop {
    "C03" | "C04" => GenParams { absorbing: false, norepeat: rng.chance(1, 2), special_bias: false, max_mappings, shared_repeat: rng.chance(1, 8) },
    "C07" => GenParams { absorbing: rng.chance(1, 3), norepeat: true, special_bias: false, max_mappings, shared_repeat: rng.chance(1, 8) },
    "C08" => GenParams { absorbing: true, norepeat: rng.chance(1, 3), special_bias: false, max_mappings, shared_repeat: rng.chance(1, 8) },
    "C09" => GenParams { absorbing: rng.chance(1, 3), norepeat: true, special_bias: true, max_mappings, shared_repeat: rng.chance(1, 8) },
    "C05" => GenParams { absorbing: rng.chance(1, 4), norepeat: rng.chance(1, 2), special_bias: false, max_mappings, shared_repeat: rng.chance(1, 8) },
    _ => GenParams { absorbing: rng.chance(1, 2), norepeat: rng.chance(1, 2), special_bias: false, max_mappings, shared_repeat: rng.chance(1, 8) }
  }
}

fn relevant(prop: &str, case: &LayoutCase) -> bool {
  match prop {
    "C03" | "C04" => !case.has_absorbing,
    "C07" => case.has_norepeat,
    "C08" => case.has_absorbing,
    "C09" => case.has_special,
    _ => true
  }
}

pub fn run(opts: &Opts) -> i32 {
  let flags = Flags::for_prop(&opts.prop);
  let mut out = ShardOut::new();
  let mut rng = Rng::new(opts.shard_seed() ^ hash_str(&opts.prop));
  let thorough = opts.thorough();
  let known: Vec<String> = opts.known();
  let wp = WalkParams { n_max: if thorough { 5 } else { 4 }, max_len: if thorough { 90 } else { 60 } };
  let n_gen = opts.num("layouts", if thorough { 60000 } else { 4000 }) as usize;
  let walks_gen = opts.num("walks", if thorough { 40 } else { 20 }) as usize;
  let walks_corpus = opts.num("corpus_walks", if thorough { 6000 } else { 400 }) as usize;
  let exh_alphabet = opts.num("exh_alphabet", if thorough { 8 } else { 7 }) as usize;   // trigger keys
  let exh_every = opts.num("exh_every", if thorough { 2 } else { 3 }) as usize;
  let exh_nmax = opts.num("exh_nmax", if thorough { 4 } else { 3 }) as usize;
  let exh_states = opts.num("exh_states", if thorough { 150000 } else { 12000 }) as usize;
  let exh_budget = opts.num("exh_budget", if thorough { 400_000_000 } else if opts.prop == "C08" { 7_000_000 } else { 12_000_000 });
  // C08's monitor state (arming table) multiplies the state space: explore fewer layouts exhaustively there
  let (exh_every, exh_states) = if opts.prop == "C08" { (exh_every * 3, exh_states / 2) } else { (exh_every, exh_states) };

  // corpus: every shard explores every relevant corpus layout with its own seed
  let corpus = corpus_layouts();
  out.notes.insert("corpus_layouts".to_string(), json!(corpus.iter().map(|(n, _)| n.clone()).collect::<Vec<_>>()));
  for (name, l) in &corpus {
    if !valid_for_mapper(l) { out.count("corpus_layouts_not_installable"); continue; }
    let case = make_case(l.clone(), &format!("corpus:{}", name), vec![None; l.mappings.len()], &mut rng, 14);
    if !relevant(&opts.prop, &case) && !(opts.prop == "C05" && l.mappings.is_empty()) { continue; }
    let big = l.mappings.len() > 20;
    // big layouts: several random sub-alphabets
    let rounds = if big { 4 } else { 1 };
    for _ in 0..rounds {
      let case = make_case(l.clone(), &format!("corpus:{}", name), vec![None; l.mappings.len()], &mut rng, 14);
      explore_layout(&case, &flags, walks_corpus / rounds, &wp, &mut rng, &mut out, &known);
    }
  }
  // generated layouts
  let mut made = 0;
  let mut tries = 0;
  while made < n_gen && tries < n_gen * 20 {
    tries += 1;
    let p = gen_params_for(&opts.prop, &mut rng, thorough);
    let case = gen_case(&mut rng, &p);
    if !relevant(&opts.prop, &case) { continue; }
    made += 1;
    explore_layout(&case, &flags, walks_gen, &wp, &mut rng, &mut out, &known);
    let n_trigger_keys = { let mut v: Vec<KeyCode> = vec![]; for m in &case.layout.mappings { for k in &m.from { set_insert(&mut v, *k); } } v.len() };
    // the exhaustive mode has a budget of transitions per shard (a logical bound, not a clock): beyond it the
    // remaining layouts get the random walks only
    if out.get("exhaustive_transitions") >= exh_budget { out.count("layouts_after_exhaustive_budget_was_used"); }
    else if case.source == "genE" && n_trigger_keys <= 6 && made % (if opts.prop == "C08" { 4 } else { 2 }) == 0 {
      // the absorbing-centric layouts are tiny: four keys held, a larger bound
      explore_exhaustive(&case, &flags, 4, exh_states * 4, &mut out, &known);
      out.count("exhaustive_layouts_4_keys_held");
    }
    else if n_trigger_keys <= exh_alphabet && !case.wide && made % exh_every == 0 {
      explore_exhaustive(&case, &flags, exh_nmax, exh_states, &mut out, &known);
    }
  }
  out.write(opts);
  if out.n_violations() > 0 { 1 } else { 0 }
}

// Re-run one recorded (layout, ops) case with the monitors of its property.
pub fn replay(rep: &Value, out: &mut ShardOut) -> bool {
  let prop = rep.get("property").and_then(|p| p.as_str()).unwrap_or("ALL").to_string();
  let layout: Layout = match rep.get("layout").and_then(|l| serde_json::from_value(l.clone()).ok()) { Some(l) => l, None => return false };
  if !valid_for_mapper(&layout) { return false; }
  let ops: Vec<Op> = match rep.get("ops").and_then(|o| o.as_array()) {
    Some(a) => { let mut v = vec![]; for x in a { match x.as_str().and_then(op_parse) { Some(o) => v.push(o), None => return false } } v },
    None => return false
  };
  let markers: Vec<Option<KeyCode>> = match rep.get("markers").and_then(|m| m.as_array()) {
    Some(a) => a.iter().map(|x| x.as_str().and_then(key_from_name)).collect(),
    None => vec![None; layout.mappings.len()]
  };
  let mut rng = Rng::new(1);
  let mut case = make_case(layout, rep.get("source").and_then(|s| s.as_str()).unwrap_or("replay"), markers, &mut rng, 1000);
  // keys of the recorded history that occur nowhere in the layout are foreign keys
  for o in &ops {
    if let Op::P(k) | Op::R(k) = o {
      if !case.layout_keys.contains(k) { set_insert(&mut case.foreign, *k); set_insert(&mut case.alphabet, *k); }
    }
  }
  let mut eng = Engine::new(&case, Flags::for_prop(&prop));
  let mut trace: Vec<Value> = vec![];
  for o in &ops {
    let r = eng.apply(o, out);
    trace.push(json!({ "in": op_str(o), "out": evs_str(&r.events),
      "armed": eng.st.armed.iter().map(|a| format!("{}@{}", key_name(a.m), key_name(a.t))).collect::<Vec<_>>(),
      "limbo": eng.st.limbo.iter().map(|k| key_name(*k)).collect::<Vec<_>>(),
      "mapper_held": eng.mapper.verif_snapshot().input_pressed_keys.iter().map(|k| key_name(*k)).collect::<Vec<_>>(),
      "mapper_absorbed": eng.mapper.verif_snapshot().mapped_absorbed_keys.iter().map(|k| key_name(*k)).collect::<Vec<_>>() }));
    let any = !r.violations.is_empty();
    for v in r.violations { out.violation(v); }
    if any { break; }
  }
  out.notes.insert("trace".to_string(), Value::Array(trace));
  true
}
