// C15: the layout saved for the systemd service reloads as the same layout.
// End to end on the real save and load paths: in a private mount namespace with
// a tmpfs over /etc, the real write_layout_to_global_config writes
// /etc/totalmapper.json and the real load_layout_from_file reads it back.

use std::ffi::CString;
use serde_json::{json, Value};
use crate::keys::{KeyCode, Layout, Mapping, Repeat};
use crate::rng::Rng;
use crate::common::*;
use crate::layouts::*;
use crate::refexpand::{gen_program, render, ProgGen, Spelling};

const ETC_FILE: &str = "/etc/totalmapper.json";

// Enter a private mount namespace and cover /etc with an empty tmpfs. true on success.
pub fn private_etc() -> Result<(), String> {
  unsafe {
    if libc::unshare(libc::CLONE_NEWNS) != 0 { return Err(format!("unshare(CLONE_NEWNS): {}", std::io::Error::last_os_error())); }
    let root = CString::new("/").unwrap();
    if libc::mount(std::ptr::null(), root.as_ptr(), std::ptr::null(), libc::MS_REC | libc::MS_PRIVATE, std::ptr::null()) != 0 {
      return Err(format!("making mounts private: {}", std::io::Error::last_os_error()));
    }
    let src = CString::new("tmpfs").unwrap();
    let tgt = CString::new("/etc").unwrap();
    let data = CString::new("size=32m").unwrap();
    if libc::mount(src.as_ptr(), tgt.as_ptr(), src.as_ptr(), libc::MS_NOSUID | libc::MS_NODEV, data.as_ptr() as *const libc::c_void) != 0 {
      return Err(format!("mounting a tmpfs on /etc: {}", std::io::Error::last_os_error()));
    }
  }
  // refuse to go on unless /etc is now the empty tmpfs we just mounted
  match std::fs::read_dir("/etc") {
    Ok(mut rd) => if rd.next().is_some() { return Err("/etc is not empty after mounting the tmpfs".to_string()); },
    Err(e) => return Err(format!("cannot list /etc: {}", e))
  }
  Ok(())
}

fn save_and_reload(layout: &Layout, namespaced: bool, fallback_file: &str) -> Result<Layout, String> {
  if namespaced {
    crate::udev_utils::verif::write_layout_to_global_config(layout).map_err(|e| format!("save failed: {}", e))?;
    crate::layout_loading::load_layout_from_file(ETC_FILE).map_err(|e| format!("reload failed: {}", e))
  }
  else {
    // weaker path: the same serialiser into a temp file, the same loader
    let f = std::fs::File::create(fallback_file).map_err(|e| format!("{}", e))?;
    serde_json::to_writer_pretty(std::io::BufWriter::new(f), layout).map_err(|e| format!("save failed: {}", e))?;
    crate::layout_loading::load_layout_from_file(fallback_file).map_err(|e| format!("reload failed: {}", e))
  }
}

fn first_difference(a: &Layout, b: &Layout) -> String {
  if a.mappings.len() != b.mappings.len() { return format!("{} mappings saved, {} reloaded", a.mappings.len(), b.mappings.len()); }
  for (i, (x, y)) in a.mappings.iter().zip(b.mappings.iter()).enumerate() {
    if x != y { return format!("mapping #{}: saved {}, reloaded {}", i, mapping_str(x), mapping_str(y)); }
  }
  "no difference".to_string()
}

struct Env { namespaced: bool, fallback_file: String }

fn check(layout: &Layout, kind: &str, env: &Env, out: &mut ShardOut) {
  out.count("layouts_round_tripped");
  out.count(kind);
  out.add("mappings_round_tripped", layout.mappings.len() as u64);
  let replay = || json!({ "engine": "roundtrip", "property": "C15", "layout": serde_json::to_value(layout).unwrap() });
  match save_and_reload(layout, env.namespaced, &env.fallback_file) {
    Ok(l2) => if l2.mappings != layout.mappings {
      let sig = if kind == "per_key_code" { "C15:key-name-does-not-round-trip" } else { "C15:reloaded-layout-differs" };
      out.violation(Violation { property: "C15".to_string(), clause: "round-trip".to_string(), signature: sig.to_string(), message: first_difference(layout, &l2), replay: replay() });
    },
    Err(e) => {
      let sig = if e.starts_with("save") { "C15:save-failed" } else if kind == "per_key_code" { "C15:key-name-not-read-back" } else { "C15:saved-file-rejected-on-reload" };
      out.violation(Violation { property: "C15".to_string(), clause: "round-trip".to_string(), signature: sig.to_string(), message: e.chars().take(400).collect(), replay: replay() });
    }
  }
}

fn random_basic(rng: &mut Rng, keys: &[KeyCode]) -> Layout {
  let mut l = random_basic_plain(rng, keys);
  // related mappings: the same trigger set in another order, and identity mappings (to == from) with a non-normal
  // repeat (the shape the converter itself appends for an unmatched repeat-only entry), anywhere and at the end
  if !l.mappings.is_empty() && rng.chance(1, 3) {
    let src = rng.pick(&l.mappings).clone();
    let mut f2 = src.from.clone();
    if f2.len() >= 3 { let n = f2.len() - 1; let i = rng.below(n); let j = (i + 1 + rng.below(n - 1)) % n; f2.swap(i, j); }
    let rep = if rng.chance(1, 2) { Repeat::Disabled } else { Repeat::Special { keys: { let k = rng.below(3); rng.sample(keys, k) }, delay_ms: 180, interval_ms: 30 } };
    let m2 = match rng.below(3) {
      0 => Mapping { from: f2.clone(), to: f2.clone(), repeat: rep, absorbing: vec![] },
      1 => Mapping { from: src.from.clone(), to: src.from.clone(), repeat: rep, absorbing: vec![] },
      _ => Mapping { from: f2.clone(), to: src.to.clone(), repeat: rep, absorbing: vec![] }
    };
    if rng.chance(2, 3) { l.mappings.push(m2); } else { let pos = rng.below(l.mappings.len() + 1); l.mappings.insert(pos, m2); }
  }
  l
}

// Pairs of different key sequences (2 or 3 keys) whose names, written one after the other, give the same text.
pub fn name_twins(keys: &[KeyCode]) -> Vec<(Vec<KeyCode>, Vec<KeyCode>)> {
  use std::collections::HashMap;
  let names: Vec<String> = keys.iter().map(|k| key_name(*k)).collect();
  let mut by_text: HashMap<String, Vec<Vec<KeyCode>>> = HashMap::new();
  for (i, a) in names.iter().enumerate() { for (j, b) in names.iter().enumerate() {
    if i == j { continue; }
    by_text.entry(format!("{}{}", a, b)).or_insert_with(Vec::new).push(vec![keys[i], keys[j]]);
  } }
  // a name that is itself two names run together: [.., AB, ..] against [.., A, B, ..]
  let index: HashMap<&str, usize> = names.iter().enumerate().map(|(i, n)| (n.as_str(), i)).collect();
  let mut splits: Vec<(usize, usize, usize)> = vec![];
  for (i, n) in names.iter().enumerate() {
    for cut in 1..n.len() {
      if !n.is_char_boundary(cut) { continue; }
      if let (Some(&a), Some(&b)) = (index.get(&n[..cut]), index.get(&n[cut..])) { if a != b { splits.push((i, a, b)); } }
    }
  }
  let mut res: Vec<(Vec<KeyCode>, Vec<KeyCode>)> = vec![];
  let mut texts: Vec<&String> = by_text.keys().collect();
  texts.sort();
  for t in texts {
    let v = &by_text[t];
    for i in 0..v.len() { for j in (i + 1)..v.len() { res.push((v[i].clone(), v[j].clone())); } }
  }
  for (n, a, b) in &splits {
    // with one more key on either side, so that both chords have at least two keys
    for (c, _) in names.iter().enumerate().step_by(37) {
      if c == *n || c == *a || c == *b { continue; }
      res.push((vec![keys[c], keys[*n]], vec![keys[c], keys[*a], keys[*b]]));
      res.push((vec![keys[*n], keys[c]], vec![keys[*a], keys[*b], keys[c]]));
    }
  }
  res
}

fn random_basic_plain(rng: &mut Rng, keys: &[KeyCode]) -> Layout {
  let n = rng.range(0, 6);
  let mut ms = vec![];
  for _ in 0..n {
    let fl = rng.range(1, 4);
    let from = rng.sample(keys, fl);
    let tl = rng.below(4);
    let to = rng.sample(keys, tl);
    let repeat = match rng.below(6) {
      0 | 1 => Repeat::Normal, 2 => Repeat::Disabled,
      _ => Repeat::Special { keys: { let k = rng.below(4); rng.sample(keys, k) },
        delay_ms: *rng.pick(&[0, 1, 180, -1, -180, i32::MAX, i32::MIN, 65536, 99999]), interval_ms: *rng.pick(&[0, 30, -30, i32::MAX, i32::MIN, 1]) }
    };
    let absorbing: Vec<KeyCode> = from[..from.len() - 1].iter().cloned().filter(|_| rng.chance(1, 3)).collect();
    ms.push(Mapping { from, to, repeat, absorbing });
  }
  Layout { mappings: ms }
}

pub fn run(opts: &Opts) -> i32 {
  let mut out = ShardOut::new();
  let mut rng = Rng::new(opts.shard_seed() ^ 0xc15);
  let thorough = opts.thorough();
  std::panic::set_hook(Box::new(|_| {}));
  let env = match private_etc() {
    Ok(()) => { out.count("ran_in_private_namespace"); Env { namespaced: true, fallback_file: String::new() } },
    Err(why) => {
      out.notes.insert("namespace_unavailable".to_string(), json!(why));
      out.count("ran_on_fallback_path");
      Env { namespaced: false, fallback_file: if opts.out.is_empty() { format!("{}/tmverif-c15-{}.json", std::env::temp_dir().display(), std::process::id()) } else { format!("{}.etc.json", opts.out) } }
    }
  };
  let keys = all_key_codes();
  out.notes.insert("key_codes_known".to_string(), json!(keys.len()));

  // (1) exhaustive: every key code as trigger, output, repeat key and absorbed modifier
  for (i, k) in keys.iter().enumerate() {
    if (i as u64) % opts.nshards != opts.shard { continue; }
    let other = if *k == KeyCode::A { KeyCode::B } else { KeyCode::A };
    let l = Layout { mappings: vec![
      Mapping { from: vec![*k, other], to: vec![*k], repeat: Repeat::Special { keys: vec![*k], delay_ms: 180, interval_ms: 30 }, absorbing: vec![*k] },
      Mapping { from: vec![*k], to: vec![other, *k], repeat: Repeat::Disabled, absorbing: vec![] } ] };
    out.nontrivial(hash64(&(i, 0u8)));
    check(&l, "per_key_code", &env, &mut out);
  }
  // (2) what the converter produces for the corpus
  if opts.shard == 0 {
    for (name, l) in corpus_layouts() { out.nontrivial(hash_str(&name)); check(&l, "corpus_layouts", &env, &mut out); }
  }
  // (3) what the converter produces for generated programs
  let n = opts.num("programs", if thorough { 1_000_000 } else { 100_000 });
  let g = ProgGen { max_entries: 6 };
  let mut made = 0;
  while made < n {
    let p = gen_program(&mut rng, &g);
    // one program in three is written in a varied spelling and then damaged by 1-3 structure-aware mutations (the
    // hostile inputs of C14): whatever the real loader still accepts and converts is a layout "the converter can
    // produce" and has to survive the save and the reload like any other
    let mutated = rng.chance(1, 3);
    let v = if mutated { crate::load_mon::mutate(&render(&p, &Spelling { vary: true, seed: rng.next_u64() }), &mut rng) } else { render(&p, &Spelling { vary: false, seed: 0 }) };
    let l = match std::panic::catch_unwind(|| crate::convert_mon::real_convert(&v)) { Ok(Ok(l)) => l, _ => { out.count(if mutated { "mutated_programs_not_converting" } else { "programs_not_converting" }); made += 1; continue; } };
    made += 1;
    if mutated { out.count("mutated_programs_converting"); }
    out.nontrivial(hash_str(&format!("{:?}", l.mappings)));
    for m in &l.mappings {
      if m.to.is_empty() { out.count("mappings_with_empty_output"); }
      if let Repeat::Special { keys, .. } = &m.repeat { if keys.is_empty() { out.count("special_with_empty_chord"); } if keys.len() > 1 { out.count("special_with_multi_key_chord"); } }
      if !m.absorbing.is_empty() { out.count("mappings_with_absorbing"); }
      if m.from.len() >= 3 { out.count("mappings_with_3plus_trigger_keys"); }
    }
    if out.wants_sample() && l.mappings.len() >= 2 && l.mappings.len() <= 5 && rng.chance(1, 40) {
      out.sample(json!({ "saved_layout": serde_json::to_value(&l).unwrap(), "reloaded_equal": save_and_reload(&l, env.namespaced, &env.fallback_file).map(|x| x.mappings == l.mappings).unwrap_or(false) }));
    }
    check(&l, "converted_programs", &env, &mut out);
  }
  // (4) random basic layouts over all key codes, extreme repeat parameters
  let n2 = opts.num("random", if thorough { 1_000_000 } else { 100_000 });
  for _ in 0..n2 {
    let l = random_basic(&mut rng, &keys);
    out.nontrivial(hash_str(&format!("{:?}", l.mappings)));
    check(&l, "random_basic_layouts", &env, &mut out);
  }
  // (4b) chords whose key NAMES run together to the same text ([HOME,PAGEUP] / [HOMEPAGE,UP], [F1,2] / [F,12]...): the saved
  // file spells keys by name, so whatever the writer or the reader does with a chord as a whole (joining, caching,
  // de-duplicating by a textual key) must still tell such chords apart.  All such pairs among the key names, each in every
  // role (trigger, output, repeat keys, across roles), in both orders.
  let twins = name_twins(&keys);
  out.notes.insert("name_concatenation_twins".to_string(), json!(twins.len()));
  for (i, (a, b)) in twins.iter().enumerate() {
    if (i as u64) % opts.nshards != opts.shard { continue; }
    let filler = |n: usize| -> KeyCode { keys[(i * 7 + n * 13) % keys.len()] };
    for (x, y) in [(a, b), (b, a)] {
      let sp = |k: &Vec<KeyCode>| Repeat::Special { keys: k.clone(), delay_ms: 180, interval_ms: 30 };
      let ls = vec![
        Layout { mappings: vec![Mapping { from: vec![filler(1)], to: x.clone(), repeat: Repeat::Normal, absorbing: vec![] }, Mapping { from: vec![filler(2)], to: y.clone(), repeat: Repeat::Normal, absorbing: vec![] }] },
        Layout { mappings: vec![Mapping { from: x.clone(), to: vec![filler(1)], repeat: Repeat::Normal, absorbing: vec![] }, Mapping { from: y.clone(), to: vec![filler(2)], repeat: Repeat::Disabled, absorbing: vec![] }] },
        Layout { mappings: vec![Mapping { from: vec![filler(1)], to: vec![filler(3)], repeat: sp(x), absorbing: vec![] }, Mapping { from: vec![filler(2)], to: vec![], repeat: sp(y), absorbing: vec![] }] },
        Layout { mappings: vec![Mapping { from: vec![filler(1)], to: x.clone(), repeat: sp(y), absorbing: vec![] }] },
        Layout { mappings: vec![Mapping { from: x.clone(), to: y.clone(), repeat: Repeat::Normal, absorbing: vec![] }, Mapping { from: y.clone(), to: x.clone(), repeat: Repeat::Normal, absorbing: vec![] }] },
        Layout { mappings: vec![Mapping { from: x.clone(), to: vec![], repeat: Repeat::Normal, absorbing: x[..x.len() - 1].to_vec() }, Mapping { from: y.clone(), to: vec![], repeat: Repeat::Normal, absorbing: y[..y.len() - 1].to_vec() }] },
      ];
      for l in ls {
        if l.mappings.iter().any(|m| has_duplicate(&m.from) || has_duplicate(&m.to)) { continue; }
        out.nontrivial(hash_str(&format!("{:?}", l.mappings)));
        check(&l, "name_twin_layouts", &env, &mut out);
      }
    }
  }
  // (5) very large layouts: thousands of mappings, a saved file of several megabytes
  let n_big = opts.num("big", if thorough { 6 } else { 2 });
  for _ in 0..n_big {
    let n = rng.range(4000, 12000);
    let mut ms = Vec::with_capacity(n);
    for _ in 0..n {
      let fl = rng.range(1, 4);
      let from = rng.sample(&keys, fl);
      let tl = rng.below(4);
      let to = rng.sample(&keys, tl);
      ms.push(Mapping { absorbing: from[..from.len() - 1].iter().cloned().filter(|_| rng.chance(1, 4)).collect(), from, to,
        repeat: if rng.chance(1, 5) { Repeat::Special { keys: { let k = rng.below(3); rng.sample(&keys, k) }, delay_ms: 180, interval_ms: 30 } } else { Repeat::Normal } });
    }
    let l = Layout { mappings: ms };
    out.nontrivial(hash_str(&format!("{:?}", &l.mappings[..50])));
    out.add("mappings_in_big_layouts", n as u64);
    check(&l, "big_layouts", &env, &mut out);
  }
  if !env.namespaced { let _ = std::fs::remove_file(&env.fallback_file); }
  out.write(opts);
  if out.n_violations() > 0 { 1 } else { 0 }
}

pub fn replay(rep: &Value, out: &mut ShardOut) -> bool {
  let layout: Layout = match rep.get("layout").and_then(|l| serde_json::from_value(l.clone()).ok()) { Some(l) => l, None => return false };
  let env = match private_etc() {
    Ok(()) => Env { namespaced: true, fallback_file: String::new() },
    Err(_) => Env { namespaced: false, fallback_file: format!("{}/tmverif-c15-replay-{}.json", std::env::temp_dir().display(), std::process::id()) }
  };
  check(&layout, "replay", &env, out);
  true
}
