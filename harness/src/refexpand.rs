// An independent reference for the shorthand expansion (C13), written from the
// README and the property statement, not from fancy_layout_interpreting.rs:
// its own US-QWERTY table (two strings per physical row), its own row tables,
// alias cartesian product, output-side alias substitution, right-shift rule,
// repeat-only pass. Also the program generator and the JSON renderer.

use serde_json::{json, Value};
use crate::keys::{KeyCode, Mapping, Repeat};
use crate::rng::Rng;
use crate::common::*;
use KeyCode::*;

#[derive(Clone, Debug, PartialEq)]
pub enum Md { Key(KeyCode), Alias(String) }

#[derive(Clone, Debug, PartialEq)]
pub struct ToKeys { pub mods: Vec<Md>, pub key: KeyCode }

#[derive(Clone, Debug, PartialEq)]
pub enum SRep { Absent, Normal, Disabled, Special { to: Option<ToKeys>, delay: i32, interval: i32 } }

#[derive(Clone, Debug, PartialEq)]
pub enum RRep { Absent, Normal, Disabled, Special { mods: Vec<Md>, letters: String, delay: i32, interval: i32 } }

#[derive(Clone, Debug, PartialEq)]
pub enum Entry {
  Alias { keys: Vec<KeyCode>, extras: Vec<KeyCode>, name: String },
  Single { mods: Vec<Md>, key: KeyCode, to: Option<ToKeys>, repeat: SRep, absorbing: Vec<Md> },
  Row { mods: Vec<Md>, row: usize, to_mods: Vec<Md>, letters: String, repeat: RRep, absorbing: Vec<Md> },
  RepeatOnly { mods: Vec<Md>, key: KeyCode, repeat: SRep }
}

pub type Program = Vec<Entry>;

// ---------- US QWERTY, from the characters printed on the keys ----------

const ROW_KEYS: [&[KeyCode]; 4] = [
  &[GRAVE, K1, K2, K3, K4, K5, K6, K7, K8, K9, K0, MINUS, EQUAL],
  &[Q, W, E, R, T, Y, U, I, O, P, LEFTBRACE, RIGHTBRACE, BACKSLASH],
  &[A, S, D, F, G, H, J, K, L, SEMICOLON, APOSTROPHE],
  &[Z, X, C, V, B, N, M, COMMA, DOT, SLASH]
];
const PLAIN: [&str; 4] = ["`1234567890-=", "qwertyuiop[]\\", "asdfghjkl;'", "zxcvbnm,./"];
const SHIFTED: [&str; 4] = ["~!@#$%^&*()_+", "QWERTYUIOP{}|", "ASDFGHJKL:\"", "ZXCVBNM<>?"];

pub fn us_qwerty(ch: char) -> Option<(bool, KeyCode)> {
  for r in 0..4 {
    if let Some(i) = PLAIN[r].chars().position(|c| c == ch) { return Some((false, ROW_KEYS[r][i])); }
    if let Some(i) = SHIFTED[r].chars().position(|c| c == ch) { return Some((true, ROW_KEYS[r][i])); }
  }
  None
}

// the five row names of the README: "`", "1", "Q", "A", "Z"
pub const ROW_NAMES: [&str; 5] = ["`", "1", "Q", "A", "Z"];

pub fn row_keys(row: usize) -> Vec<KeyCode> {
  match row {
    0 => ROW_KEYS[0].to_vec(),
    1 => ROW_KEYS[0][1..].to_vec(),            // the same row, starting with the "1" key
    2 => ROW_KEYS[1][..12].to_vec(),           // Q .. ]  (the backslash key is not part of the row shorthand)
    3 => ROW_KEYS[2].to_vec(),
    _ => ROW_KEYS[3].to_vec()
  }
}

pub fn all_chars() -> Vec<char> {
  let mut v: Vec<char> = vec![];
  for r in 0..4 { v.extend(PLAIN[r].chars()); v.extend(SHIFTED[r].chars()); }
  v
}

// ---------- reference expansion ----------

pub struct Expanded {
  // one block per source entry, in source order; each block lists its acceptable alternatives
  pub blocks: Vec<Vec<Vec<Mapping>>>,
  // mappings appended by the repeat-only pass: alternatives, each a list of blocks (one per repeat-only entry)
  pub appended: Vec<Vec<Vec<Mapping>>>,
  pub ambiguous: bool
}

type Defs = Vec<(String, Vec<(Vec<KeyCode>, Vec<KeyCode>)>)>;

fn alias_defs(p: &Program) -> Defs {
  let mut res: Defs = vec![];
  for e in p {
    if let Entry::Alias { keys, extras, name } = e {
      match res.iter_mut().find(|(n, _)| n == name) {
        Some((_, v)) => v.push((keys.clone(), extras.clone())),
        None => res.push((name.clone(), vec![(keys.clone(), extras.clone())]))
      }
    }
  }
  res
}

// every way of choosing one definition per alias occurrence of the trigger: Vec of (alias name -> chosen keys)
fn combinations(defs: &Defs, mods: &[Md]) -> Result<Vec<Vec<(String, Vec<KeyCode>)>>, String> {
  let mut res: Vec<Vec<(String, Vec<KeyCode>)>> = vec![vec![]];
  for m in mods {
    if let Md::Alias(name) = m {
      let d = defs.iter().find(|(n, _)| n == name).ok_or(format!("alias {} undefined", name))?;
      let mut next = vec![];
      for partial in &res {
        for (keys, _) in &d.1 {
          let mut p = partial.clone();
          p.push((name.clone(), keys.clone()));
          next.push(p);
        }
      }
      res = next;
    }
  }
  Ok(res)
}

fn subst(mods: &[Md], choice: &[(String, Vec<KeyCode>)], positional: bool) -> Result<Vec<KeyCode>, String> {
  // positional: the trigger side, where the i-th alias occurrence takes the i-th choice
  let mut out = vec![];
  let mut ai = 0;
  for m in mods {
    match m {
      Md::Key(k) => out.push(*k),
      Md::Alias(name) => {
        if positional { out.extend(choice[ai].1.iter()); ai += 1; }
        else {
          let c = choice.iter().rev().find(|(n, _)| n == name).ok_or(format!("alias {} on the output side does not occur in the trigger", name))?;
          out.extend(c.1.iter());
        }
      }
    }
  }
  Ok(out)
}

fn to_keys(t: &Option<ToKeys>, choice: &[(String, Vec<KeyCode>)]) -> Result<Vec<KeyCode>, String> {
  match t {
    None => Ok(vec![]),
    Some(tk) => { let mut v = subst(&tk.mods, choice, false)?; v.push(tk.key); Ok(v) }
  }
}

fn srep(r: &SRep, choice: &[(String, Vec<KeyCode>)]) -> Result<Repeat, String> {
  Ok(match r {
    SRep::Absent | SRep::Normal => Repeat::Normal,
    SRep::Disabled => Repeat::Disabled,
    SRep::Special { to, delay, interval } => Repeat::Special { keys: to_keys(to, choice)?, delay_ms: *delay, interval_ms: *interval }
  })
}

fn letter_keys(mods: &[KeyCode], ch: char, right_shift: bool) -> Result<Option<Vec<KeyCode>>, String> {
  if ch == ' ' { return Ok(None); }
  let (sh, k) = us_qwerty(ch).ok_or(format!("no key for {:?} on a US keyboard", ch))?;
  let mut v = mods.to_vec();
  if sh { v.push(if right_shift { RIGHTSHIFT } else { LEFTSHIFT }); }
  v.push(k);
  Ok(Some(v))
}

fn is_std_modifier(k: KeyCode) -> bool { is_modifier(k) }

pub fn expand(p: &Program) -> Result<Expanded, String> {
  let defs = alias_defs(p);
  let mut blocks: Vec<Vec<Vec<Mapping>>> = vec![];
  let mut ambiguous = false;
  for e in p {
    match e {
      Entry::Alias { keys, extras, .. } => {
        let m = Mapping { from: keys.clone(), to: extras.clone(), repeat: Repeat::Normal, absorbing: vec![] };
        if keys.len() == 1 && is_std_modifier(keys[0]) {
          // the statement is silent on what a one-standard-modifier alias definition itself maps to
          blocks.push(vec![vec![], vec![m]]);
        }
        else { blocks.push(vec![vec![m]]); }
      },
      Entry::Single { mods, key, to, repeat, absorbing } => {
        let mut b = vec![];
        for choice in combinations(&defs, mods)? {
          let mut from = subst(mods, &choice, true)?;
          from.push(*key);
          b.push(Mapping { from, to: to_keys(to, &choice)?, repeat: srep(repeat, &choice)?, absorbing: subst(absorbing, &choice, false)? });
        }
        blocks.push(vec![b]);
      },
      Entry::Row { mods, row, to_mods, letters, repeat, absorbing } => {
        let rk = row_keys(*row);
        let chars: Vec<char> = letters.chars().collect();
        if chars.len() > rk.len() { return Err("more letters than keys in the row".to_string()); }
        if let RRep::Special { letters: rl, .. } = repeat { if rl.chars().count() > chars.len() { return Err("more repeat letters than letters".to_string()); } }
        let mut b = vec![];
        for choice in combinations(&defs, mods)? {
          let from_mods = subst(mods, &choice, true)?;
          let right = from_mods.contains(&RIGHTSHIFT);
          let tm = subst(to_mods, &choice, false)?;
          let ab = subst(absorbing, &choice, false)?;
          for (i, ch) in chars.iter().enumerate() {
            if let Some(to) = letter_keys(&tm, *ch, right)? {
              let mut from = from_mods.clone();
              from.push(rk[i]);
              let rep = match repeat {
                RRep::Absent | RRep::Normal => Repeat::Normal,
                RRep::Disabled => Repeat::Disabled,
                RRep::Special { mods: rm, letters: rl, delay, interval } => {
                  let rc: Vec<char> = rl.chars().collect();
                  if i >= rc.len() { Repeat::Normal }
                  else {
                    match letter_keys(&subst(rm, &choice, false)?, rc[i], right)? {
                      None => Repeat::Normal,
                      Some(keys) => Repeat::Special { keys, delay_ms: *delay, interval_ms: *interval }
                    }
                  }
                }
              };
              b.push(Mapping { from, to, repeat: rep, absorbing: ab.clone() });
            }
          }
        }
        blocks.push(vec![b]);
      },
      Entry::RepeatOnly { .. } => blocks.push(vec![vec![]])
    }
  }
  // repeat-only pass: same final key and same set of other trigger keys
  let same_trigger = |a: &[KeyCode], b: &[KeyCode]| -> bool {
    !a.is_empty() && !b.is_empty() && a.last() == b.last() && same_set(&a[..a.len() - 1], &b[..b.len() - 1]) && a.len() == b.len()
  };
  let mut appended_a: Vec<Vec<Mapping>> = vec![];   // every unmatched entry appends (what a table built before the pass gives)
  let mut appended_b: Vec<Vec<Mapping>> = vec![];   // an entry also finds mappings appended by earlier entries (literal reading)
  for e in p {
    if let Entry::RepeatOnly { mods, key, repeat } = e {
      let mut blk_a: Vec<Mapping> = vec![];
      let mut blk_b: Vec<Mapping> = vec![];
      for choice in combinations(&defs, mods)? {
        let mut from = subst(mods, &choice, true)?;
        from.push(*key);
        let rep = srep(repeat, &choice)?;
        let mut hit = false;
        for blk in blocks.iter_mut() {
          for alt in blk.iter_mut() {
            for m in alt.iter_mut() { if same_trigger(&m.from, &from) { m.repeat = rep.clone(); hit = true; } }
          }
        }
        if !hit {
          let idm = Mapping { from: from.clone(), to: from.clone(), repeat: rep.clone(), absorbing: vec![] };
          blk_a.push(idm.clone());
          let mut hit_b = false;
          for b in appended_b.iter_mut() { for m in b.iter_mut() { if same_trigger(&m.from, &from) { m.repeat = rep.clone(); hit_b = true; } } }
          for m in blk_b.iter_mut() { if same_trigger(&m.from, &from) { m.repeat = rep.clone(); hit_b = true; } }
          if !hit_b { blk_b.push(idm); }
        }
      }
      appended_a.push(blk_a);
      appended_b.push(blk_b);
    }
  }
  let appended = if appended_a == appended_b { vec![appended_a] } else { ambiguous = true; vec![appended_a, appended_b] };
  Ok(Expanded { blocks, appended, ambiguous })
}

fn multiset_eq(a: &[Mapping], b: &[Mapping]) -> bool {
  if a.len() != b.len() { return false; }
  let mut used = vec![false; b.len()];
  for x in a {
    match (0..b.len()).find(|j| !used[*j] && &b[*j] == x) { Some(j) => used[j] = true, None => return false }
  }
  true
}

// Compare the real conversion result with the reference, block by block (order inside a block is free).
pub fn matches(real: &[Mapping], ex: &Expanded) -> Result<(), String> {
  // returns Err((depth reached, message)); the message of the deepest failure is reported
  fn tail(real: &[Mapping], pos: usize, blocks: &[Vec<Mapping>]) -> Result<(), String> {
    let mut pos = pos;
    for (i, b) in blocks.iter().enumerate() {
      if pos + b.len() > real.len() || !multiset_eq(&real[pos..pos + b.len()], b) {
        let got = &real[pos..std::cmp::min(real.len(), pos + b.len())];
        return Err(format!("repeat-only entry #{}: the converter appended [{}], expected [{}]", i,
          got.iter().map(mapping_str).collect::<Vec<_>>().join("; "), b.iter().map(mapping_str).collect::<Vec<_>>().join("; ")));
      }
      pos += b.len();
    }
    if pos != real.len() {
      return Err(format!("{} unexpected mapping(s) at the end: [{}]", real.len() - pos, real[pos..].iter().map(mapping_str).collect::<Vec<_>>().join("; ")));
    }
    Ok(())
  }
  fn go(real: &[Mapping], pos: usize, blocks: &[Vec<Vec<Mapping>>], bi: usize, appended: &[Vec<Vec<Mapping>>]) -> Result<(), (usize, String)> {
    if bi == blocks.len() {
      let mut err = String::new();
      for alt in appended { match tail(real, pos, alt) { Ok(()) => return Ok(()), Err(e) => { if err.is_empty() { err = e; } } } }
      return Err((bi + 1, err));
    }
    let mut best: (usize, String) = (0, String::new());
    for alt in &blocks[bi] {
      let e = if pos + alt.len() > real.len() { (bi, format!("source entry #{}: expected {} mapping(s), the result ends early", bi, alt.len())) }
        else if multiset_eq(&real[pos..pos + alt.len()], alt) {
          match go(real, pos + alt.len(), blocks, bi + 1, appended) { Ok(()) => return Ok(()), Err(e) => e }
        }
        else {
          (bi, format!("source entry #{}: converted to [{}], the hand-written expansion is [{}]", bi,
            real[pos..pos + alt.len()].iter().map(mapping_str).collect::<Vec<_>>().join("; "), alt.iter().map(mapping_str).collect::<Vec<_>>().join("; ")))
        };
      if best.1.is_empty() || e.0 > best.0 { best = e; }
    }
    Err(best)
  }
  go(real, 0, &ex.blocks, 0, &ex.appended).map_err(|e| e.1)
}

pub fn has_dup_keys(ex: &Expanded) -> bool {
  let dup = |v: &[KeyCode]| (0..v.len()).any(|i| (i + 1..v.len()).any(|j| v[i] == v[j]));
  ex.blocks.iter().any(|b| b.iter().any(|alt| alt.iter().any(|m| dup(&m.from) || dup(&m.to))))
    || ex.appended.iter().any(|alt| alt.iter().any(|b| b.iter().any(|m| dup(&m.from) || dup(&m.to))))
}

// ---------- rendering to JSON (with spelling variants) ----------

pub struct Spelling { pub vary: bool, pub seed: u64 }

fn md_json(m: &Md) -> Value { match m { Md::Key(k) => json!(key_name(*k)), Md::Alias(a) => json!(a) } }

fn case_variant(s: &str, rng: &mut Rng, vary: bool) -> String {
  if !vary { return s.to_string(); }
  match rng.below(3) { 0 => s.to_lowercase(), 1 => s.to_uppercase(), _ => s.to_string() }
}

fn list_or_bare(mut items: Vec<Value>, rng: &mut Rng, vary: bool) -> Value {
  // a one-element list may be written as the bare element
  if items.len() == 1 && (!vary || rng.chance(1, 2)) { items.remove(0) } else { Value::Array(items) }
}

fn to_json(t: &Option<ToKeys>, rng: &mut Rng, vary: bool) -> Value {
  match t {
    None => json!([]),
    Some(tk) => { let mut v: Vec<Value> = tk.mods.iter().map(md_json).collect(); v.push(json!(key_name(tk.key))); list_or_bare(v, rng, vary) }
  }
}

fn srep_json(r: &SRep, rng: &mut Rng, vary: bool) -> Option<Value> {
  match r {
    SRep::Absent => None,
    SRep::Normal => Some(json!(case_variant("Normal", rng, vary))),
    SRep::Disabled => Some(json!(case_variant("Disabled", rng, vary))),
    SRep::Special { to, delay, interval } => Some(json!({ "Special": { "keys": to_json(to, rng, vary), "delay_ms": delay, "interval_ms": interval } }))
  }
}

fn absorbing_json(a: &[Md], rng: &mut Rng, vary: bool) -> Option<Value> {
  if a.is_empty() { if vary && rng.chance(1, 4) { Some(json!([])) } else { None } }
  else { Some(list_or_bare(a.iter().map(md_json).collect(), rng, vary)) }
}

pub fn render(p: &Program, sp: &Spelling) -> Value {
  let mut rng = Rng::new(sp.seed);
  let vary = sp.vary;
  let mut ms: Vec<Value> = vec![];
  for e in p {
    let mut o = serde_json::Map::new();
    match e {
      Entry::Alias { keys, extras, name } => {
        o.insert("from".to_string(), list_or_bare(keys.iter().map(|k| json!(key_name(*k))).collect(), &mut rng, vary));
        let mut t: Vec<Value> = extras.iter().map(|k| json!(key_name(*k))).collect();
        t.push(json!(name));
        o.insert("to".to_string(), list_or_bare(t, &mut rng, vary));
      },
      Entry::Single { mods, key, to, repeat, absorbing } => {
        let mut f: Vec<Value> = mods.iter().map(md_json).collect();
        f.push(json!(key_name(*key)));
        o.insert("from".to_string(), list_or_bare(f, &mut rng, vary));
        o.insert("to".to_string(), to_json(to, &mut rng, vary));
        if let Some(r) = srep_json(repeat, &mut rng, vary) { o.insert("repeat".to_string(), r); }
        if let Some(a) = absorbing_json(absorbing, &mut rng, vary) { o.insert("absorbing".to_string(), a); }
      },
      Entry::Row { mods, row, to_mods, letters, repeat, absorbing } => {
        let mut f: Vec<Value> = mods.iter().map(md_json).collect();
        f.push(json!({ "row": case_variant(ROW_NAMES[*row], &mut rng, vary) }));
        o.insert("from".to_string(), list_or_bare(f, &mut rng, vary));
        let mut t: Vec<Value> = to_mods.iter().map(md_json).collect();
        t.push(json!({ "letters": letters }));
        o.insert("to".to_string(), list_or_bare(t, &mut rng, vary));
        match repeat {
          RRep::Absent => (),
          RRep::Normal => { o.insert("repeat".to_string(), json!(case_variant("Normal", &mut rng, vary))); },
          RRep::Disabled => { o.insert("repeat".to_string(), json!(case_variant("Disabled", &mut rng, vary))); },
          RRep::Special { mods: rm, letters: rl, delay, interval } => {
            let mut k: Vec<Value> = rm.iter().map(md_json).collect();
            k.push(json!({ "letters": rl }));
            o.insert("repeat".to_string(), json!({ "Special": { "keys": list_or_bare(k, &mut rng, vary), "delay_ms": delay, "interval_ms": interval } }));
          }
        }
        if let Some(a) = absorbing_json(absorbing, &mut rng, vary) { o.insert("absorbing".to_string(), a); }
      },
      Entry::RepeatOnly { mods, key, repeat } => {
        let mut f: Vec<Value> = mods.iter().map(md_json).collect();
        f.push(json!(key_name(*key)));
        o.insert("from".to_string(), list_or_bare(f, &mut rng, vary));
        // a repeat-only entry needs an explicit repeat
        let r = srep_json(repeat, &mut rng, vary).unwrap_or(json!("Normal"));
        o.insert("repeat".to_string(), r);
      }
    }
    ms.push(Value::Object(o));
  }
  json!({ "mappings": ms })
}

// ---------- program generator ----------

const ALIAS_NAMES: [&str; 4] = ["@a", "@b", "@shift", "@sym"];
const ALIAS_KEYS: [KeyCode; 13] = [LEFTSHIFT, RIGHTSHIFT, CAPSLOCK, TAB, RIGHTALT, LEFTCTRL, GRAVE, LEFTALT, SPACE, LEFTMETA, RIGHTMETA, RIGHTCTRL, HENKAN];
const PLAIN_MODS: [KeyCode; 6] = [RIGHTCTRL, LEFTMETA, RIGHTSHIFT, ESC, F1, LEFTSHIFT];
const FINALS: [KeyCode; 10] = [A, S, J, K, SPACE, ENTER, K1, SEMICOLON, F5, BACKSLASH];
const OUTS: [KeyCode; 12] = [LEFT, RIGHT, ESC, B, N, K9, BACKSPACE, F21, F20, LEFTCTRL, RIGHTALT, DELETE];

pub struct ProgGen { pub max_entries: usize }

fn gen_mods(rng: &mut Rng, names: &[String]) -> Vec<Md> {
  let n = match rng.below(10) { 0..=2 => 0, 3..=6 => 1, 7..=8 => 2, _ => 3 };
  let mut mods: Vec<Md> = vec![];
  let mut used_alias: Vec<String> = vec![];
  for _ in 0..n {
    if !names.is_empty() && rng.chance(2, 3) {
      let a = rng.pick(names).clone();
      if used_alias.contains(&a) { continue; }
      used_alias.push(a.clone());
      mods.push(Md::Alias(a));
    }
    else {
      let k = *rng.pick(&PLAIN_MODS);
      if mods.contains(&Md::Key(k)) { continue; }
      mods.push(Md::Key(k));
    }
  }
  mods
}

fn trigger_aliases(mods: &[Md]) -> Vec<Md> { mods.iter().filter(|m| matches!(m, Md::Alias(_))).cloned().collect() }

fn gen_to_mods(rng: &mut Rng, mods: &[Md]) -> Vec<Md> {
  let mut v = vec![];
  let ta = trigger_aliases(mods);
  if !ta.is_empty() && rng.chance(1, 3) { v.push(rng.pick(&ta).clone()); }
  if rng.chance(1, 4) { let k = *rng.pick(&[LEFTCTRL, RIGHTALT, LEFTMETA, LEFTALT]); v.push(Md::Key(k)); }
  v
}

fn gen_absorbing(rng: &mut Rng, mods: &[Md]) -> Vec<Md> {
  let mut v = vec![];
  if !mods.is_empty() && rng.chance(1, 4) { for m in mods { if rng.chance(1, 2) { v.push(m.clone()); } } }
  v
}

fn gen_srep(rng: &mut Rng, mods: &[Md], force: bool) -> SRep {
  match rng.below(if force { 6 } else { 10 }) {
    0 => SRep::Normal, 1..=2 => SRep::Disabled,
    3..=5 => SRep::Special {
      to: if rng.chance(1, 10) { None } else { Some(ToKeys { mods: gen_to_mods(rng, mods), key: *rng.pick(&OUTS) }) },
      delay: *rng.pick(&[180, 0, 1, 130, 99999]), interval: *rng.pick(&[30, 1, 25, 500]) },
    _ => SRep::Absent
  }
}

fn gen_letters(rng: &mut Rng, max: usize, chars: &[char]) -> String {
  let n = rng.range(0, max);
  (0..n).map(|_| if rng.chance(1, 4) { ' ' } else { *rng.pick(chars) }).collect()
}

pub fn gen_program(rng: &mut Rng, g: &ProgGen) -> Program {
  let chars = all_chars();
  let mut p: Program = vec![];
  let n_alias = match rng.below(10) { 0..=2 => 0, 3..=6 => 1, 7..=8 => 2, _ => 3 };
  let mut names: Vec<String> = rng.sample(&ALIAS_NAMES, n_alias).iter().map(|s| s.to_string()).collect();
  // names related to each other: a concatenation of two others, a prefix, another case (names are opaque strings;
  // anything keyed on them must keep such names apart)
  if names.len() >= 2 && rng.chance(1, 5) {
    let d = match rng.below(4) { 0 => format!("{}{}", names[0], names[1]), 1 => format!("{}{}", names[1], names[0]), 2 => names[0].to_uppercase(), _ => format!("{}@", names[0]) };
    if !names.contains(&d) { names.push(d); }
  }
  // a name that coincides with a word the implementation uses itself (mined from its string literals)
  if !names.is_empty() && rng.chance(1, 12) {
    let t = rng.pick(crate::dict::all()).clone();
    let d = format!("@{}", t.trim_start_matches('@'));
    if d.len() > 1 && !names.contains(&d) { let i = rng.below(names.len()); names[i] = d; }
  }
  let mut alias_entries: Vec<Entry> = vec![];
  for name in &names {
    let nd = rng.range(1, 3);
    for _ in 0..nd {
      let nk = match rng.below(12) { 0..=7 => 1, 8..=9 => 2, 10 => 3, _ => 4 };
      let keys = rng.sample(&ALIAS_KEYS, nk);
      let extras = if rng.chance(1, 4) { vec![*rng.pick(&[LEFTMETA, F13, LEFTCTRL])] } else { vec![] };
      alias_entries.push(Entry::Alias { keys, extras, name: name.clone() });
    }
  }
  let n = rng.range(1, g.max_entries);
  let mut others: Vec<Entry> = vec![];
  for _ in 0..n {
    let mods = gen_mods(rng, &names);
    match rng.below(10) {
      0..=3 => {
        let to = if rng.chance(1, 8) { None } else { Some(ToKeys { mods: gen_to_mods(rng, &mods), key: *rng.pick(&OUTS) }) };
        others.push(Entry::Single { key: *rng.pick(&FINALS), to, repeat: gen_srep(rng, &mods, false), absorbing: gen_absorbing(rng, &mods), mods });
      },
      4..=7 => {
        let row = rng.below(5);
        let max = row_keys(row).len();
        let letters = gen_letters(rng, max, &chars);
        let repeat = match rng.below(10) {
          0 => RRep::Normal, 1..=2 => RRep::Disabled,
          3..=4 => RRep::Special { mods: gen_to_mods(rng, &mods), letters: gen_letters(rng, letters.chars().count(), &chars), delay: 180, interval: 30 },
          _ => RRep::Absent
        };
        others.push(Entry::Row { row, to_mods: gen_to_mods(rng, &mods), letters, repeat, absorbing: gen_absorbing(rng, &mods), mods });
      },
      _ => {
        // repeat-only: often on a trigger that an earlier entry of this program has
        let mut key = *rng.pick(&FINALS);
        let mut mods = mods;
        if rng.chance(1, 2) {
          if let Some(Entry::Single { mods: m2, key: k2, .. }) = others.iter().find(|e| matches!(e, Entry::Single { .. })) {
            key = *k2; mods = m2.clone();
            if mods.len() >= 2 && rng.chance(1, 2) { mods.swap(0, 1); }   // same trigger set, other order
          }
          else if let Some(Entry::Row { mods: m2, row, .. }) = others.iter().find(|e| matches!(e, Entry::Row { .. })) {
            let rk = row_keys(*row);
            key = *rng.pick(&rk); mods = m2.clone();
          }
        }
        others.push(Entry::RepeatOnly { repeat: gen_srep(rng, &mods, true), mods, key });
      }
    }
  }
  // sibling triggers: a second mapping on the same final key whose modifiers differ from an earlier one in a single
  // place, and a repeat-only entry addressing one of the two (trigger-set lookups must tell them apart)
  if rng.chance(1, 6) {
    if let Some(Entry::Single { mods, key, to, .. }) = others.iter().find(|e| matches!(e, Entry::Single { mods, .. } if !mods.is_empty())).cloned() {
      let mut m2 = mods.clone();
      match rng.below(5) {
        // the same trigger set written in another order
        3 | 4 if m2.len() >= 2 => { let i = rng.below(m2.len()); let j = (i + 1 + rng.below(m2.len() - 1)) % m2.len(); m2.swap(i, j); },
        0 | 3 | 4 => { m2.remove(rng.below(m2.len())); },
        1 => { let i = rng.below(m2.len()); let k = *rng.pick(&PLAIN_MODS); if !m2.contains(&Md::Key(k)) { m2[i] = Md::Key(k); } },
        _ => { if !names.is_empty() { let a = Md::Alias(rng.pick(&names).clone()); if !m2.contains(&a) { let i = rng.below(m2.len()); m2[i] = a; } } }
      }
      let to2 = to.clone().map(|t| ToKeys { mods: t.mods.into_iter().filter(|m| match m { Md::Alias(_) => m2.contains(m), _ => true }).collect(), key: *rng.pick(&OUTS) });
      others.push(Entry::Single { mods: m2.clone(), key, to: to2, repeat: SRep::Absent, absorbing: vec![] });
      let target = if rng.chance(1, 2) { mods } else { m2 };
      others.push(Entry::RepeatOnly { repeat: gen_srep(rng, &target, true), mods: target, key });
    }
  }
  // alias definitions usually first, sometimes interleaved or after their uses
  if rng.chance(3, 4) { p.extend(alias_entries); p.extend(others); }
  else {
    p.extend(others);
    for a in alias_entries { let pos = rng.below(p.len() + 1); p.insert(pos, a); }
  }
  p
}

pub fn feature_tags(p: &Program) -> Vec<&'static str> {
  let mut t = vec![];
  let n_alias_names = { let mut v: Vec<&String> = vec![]; for e in p { if let Entry::Alias { name, .. } = e { if !v.contains(&name) { v.push(name); } } } v.len() };
  if n_alias_names >= 2 { t.push("two_or_more_aliases"); }
  for e in p {
    match e {
      Entry::Alias { keys, extras, .. } => { if keys.len() > 1 { t.push("multi_key_alias"); } if !extras.is_empty() { t.push("alias_with_extra_outputs"); } },
      Entry::Single { mods, to, repeat, absorbing, .. } => {
        let na = trigger_aliases(mods).len();
        if na >= 2 { t.push("single_with_2plus_aliases"); }
        if let Some(tk) = to { if tk.mods.iter().any(|m| matches!(m, Md::Alias(_))) { t.push("alias_on_output_side"); } } else { t.push("empty_output"); }
        if matches!(repeat, SRep::Special { .. }) { t.push("single_special_repeat"); }
        if !absorbing.is_empty() { t.push("absorbing"); }
      },
      Entry::Row { mods, row, repeat, to_mods, .. } => {
        t.push(match row { 0 => "row_grave", 1 => "row_1", 2 => "row_q", 3 => "row_a", _ => "row_z" });
        if trigger_aliases(mods).len() >= 1 { t.push("row_with_alias"); }
        if mods.contains(&Md::Key(RIGHTSHIFT)) { t.push("row_with_plain_rightshift"); }
        if matches!(repeat, RRep::Special { .. }) { t.push("row_special_repeat"); }
        if to_mods.iter().any(|m| matches!(m, Md::Alias(_))) { t.push("row_alias_on_output_side"); }
      },
      Entry::RepeatOnly { .. } => t.push("repeat_only")
    }
  }
  t.sort(); t.dedup();
  t
}
