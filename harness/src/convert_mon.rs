// C13: programs (layouts written with row / alias / repeat-only shorthands) go
// through the real parse_layout_from_json + convert; the result is compared
// block by block with the independent reference expansion of refexpand.rs.

use serde_json::{json, Value};
use crate::keys::{KeyCode, Layout, Mapping, Repeat};
use crate::rng::Rng;
use crate::common::*;
use crate::refexpand::*;
use KeyCode::*;

pub fn real_convert(v: &Value) -> Result<Layout, String> {
  let f = crate::layout_parsing_formatting::parse_layout_from_json(v)?;
  crate::fancy_layout_interpreting::convert(&f)
}

fn viol(out: &mut ShardOut, sig: &str, msg: String, prog: &Value) {
  out.violation(Violation { property: "C13".to_string(), clause: "expansion".to_string(), signature: sig.to_string(), message: msg,
    replay: json!({ "engine": "convert", "property": "C13", "program": prog }) });
}

// Check one program. `p` is the AST (for the reference), rendered canonically and with spelling variants.
pub fn check_program(p: &Program, rng: &mut Rng, out: &mut ShardOut) {
  out.count("programs");
  let canon = render(p, &Spelling { vary: false, seed: 0 });
  let ex = expand(p);
  let real = std::panic::catch_unwind(|| real_convert(&canon));
  let real = match real { Ok(r) => r, Err(_) => { out.count("programs_panicking_in_convert"); return; } };   // C14's business
  match (&ex, &real) {
    (Err(_), Err(_)) => { out.count("both_reject"); },
    (Err(why), Ok(l)) => {
      out.count("disagreements_checked");
      viol(out, "C13:accepted-invalid-program", format!("the reference rejects the program ({}), the converter accepts it and yields {} mappings", why, l.mappings.len()), &canon);
    },
    (Ok(ex), _) if has_dup_keys(ex) => { out.count("skipped_duplicate_key_in_expansion"); },
    (Ok(_), Err(e)) => {
      out.count("disagreements_checked");
      viol(out, "C13:rejected-valid-program", format!("the converter rejects a program whose hand-written expansion exists: {}", e), &canon);
    },
    (Ok(ex), Ok(l)) => {
      out.count("disagreements_checked");
      out.add("mappings_compared", l.mappings.len() as u64);
      if ex.ambiguous { out.count("programs_with_two_accepted_outcomes"); }
      for t in feature_tags(p) { out.count(&format!("feature_{}", t)); }
      if let Err(why) = matches(&l.mappings, ex) {
        viol(out, "C13:expansion-differs", why, &canon);
        return;
      }
      // equivalent spellings convert identically
      for vi in 0..2 {
        let var = render(p, &Spelling { vary: true, seed: rng.next_u64() });
        if var == canon { continue; }
        out.count("spelling_variants");
        match real_convert(&var) {
          Ok(l2) => if l2.mappings != l.mappings {
            viol(out, "C13:spelling-variant-differs", format!("an equivalent spelling converts differently (variant {}): {}", vi, var), &canon);
            return;
          },
          Err(e) => { viol(out, "C13:spelling-variant-rejected", format!("an equivalent spelling is rejected ({}): {}", e, var), &canon); return; }
        }
      }
      if out.wants_sample() && l.mappings.len() >= 3 && l.mappings.len() <= 8 && rng.chance(1, 50) {
        out.sample(json!({ "program": canon, "converted": l.mappings.iter().map(mapping_str).collect::<Vec<_>>() }));
      }
    }
  }
}

pub fn run(opts: &Opts) -> i32 {
  let mut out = ShardOut::new();
  let mut rng = Rng::new(opts.shard_seed() ^ 0xc13);
  let thorough = opts.thorough();
  std::panic::set_hook(Box::new(|_| {}));

  // reference self-test on the README's own worked examples
  {
    let p: Program = vec![Entry::Row { mods: vec![Md::Key(CAPSLOCK)], row: 3, to_mods: vec![], letters: "=+-".to_string(), repeat: RRep::Absent, absorbing: vec![] }];
    let ex = expand(&p).unwrap();
    let want = vec![
      Mapping { from: vec![CAPSLOCK, A], to: vec![EQUAL], repeat: Repeat::Normal, absorbing: vec![] },
      Mapping { from: vec![CAPSLOCK, S], to: vec![LEFTSHIFT, EQUAL], repeat: Repeat::Normal, absorbing: vec![] },
      Mapping { from: vec![CAPSLOCK, D], to: vec![MINUS], repeat: Repeat::Normal, absorbing: vec![] }];
    if ex.blocks != vec![vec![want]] { out.notes.insert("harness_error".to_string(), json!("reference expander self-test failed")); out.write(opts); return 3; }
  }

  // (1) systematic: every character at every position of every row, with and without a right-shift trigger
  let chars = all_chars();
  let mut idx = 0u64;
  let aux = opts.num("aux", 0) == 1;
  for row in 0..5 {
    let len = row_keys(row).len();
    for pos in 0..len {
      if aux && pos % 5 != 0 { continue; }
      for (ci, ch) in chars.iter().enumerate() {
        if aux && ci % 12 != 0 { continue; }
        for variant in 0..3 {
          idx += 1;
          if idx % opts.nshards != opts.shard { continue; }
          let letters: String = std::iter::repeat(' ').take(pos).chain(std::iter::once(*ch)).collect();
          let (mods, p0): (Vec<Md>, Program) = match variant {
            0 => (vec![], vec![]),
            1 => (vec![Md::Key(RIGHTSHIFT)], vec![]),
            _ => (vec![Md::Alias("@shift".to_string())], vec![
              Entry::Alias { keys: vec![LEFTSHIFT], extras: vec![], name: "@shift".to_string() },
              Entry::Alias { keys: vec![RIGHTSHIFT], extras: vec![], name: "@shift".to_string() }])
          };
          let mut p = p0;
          // repeat letters too, so the repeat side of the table is exercised at every position
          p.push(Entry::Row { mods, row, to_mods: vec![], letters: letters.clone(), repeat: RRep::Special { mods: vec![], letters: letters.clone(), delay: 180, interval: 30 }, absorbing: vec![] });
          out.count("systematic_char_position_programs");
          out.nontrivial(hash64(&(row, pos, *ch, variant)));
          check_program(&p, &mut rng, &mut out);
        }
      }
    }
  }
  // (2) generated programs
  let n = opts.num("programs", if thorough { 3_000_000 } else { 250_000 });
  let g = ProgGen { max_entries: if thorough { 7 } else { 6 } };
  for _ in 0..n {
    let p = gen_program(&mut rng, &g);
    let non_trivial = p.iter().any(|e| !matches!(e, Entry::Single { mods, .. } if mods.is_empty()));
    if non_trivial { out.nontrivial(hash_str(&format!("{:?}", p))); }
    out.count("generated_programs");
    check_program(&p, &mut rng, &mut out);
  }
  // (3) the shipped layouts re-expressed: the five built-ins must convert without complaint and every
  //     row/alias entry of them is also covered by (2)'s shapes; here only count them as accepted
  if opts.shard == 0 {
    for (name, text) in crate::default_fancy_layouts::DEFAULT_LAYOUTS.iter() {
      let v: Value = serde_json::from_str(text).unwrap_or(Value::Null);
      if real_convert(&v).is_ok() { out.count("builtin_layouts_converted"); }
      else { viol(&mut out, "C13:builtin-rejected", format!("built-in layout {} does not convert", name), &v); }
    }
  }
  out.write(opts);
  if out.n_violations() > 0 { 1 } else { 0 }
}

// Replay: the program is stored as JSON; the reference needs the AST, so the replay re-parses the canonical JSON
// into the AST (the canonical renderer is injective on generated programs).
pub fn replay(rep: &Value, out: &mut ShardOut) -> bool {
  let prog = match rep.get("program") { Some(p) => p.clone(), None => return false };
  let p = match parse_program(&prog) { Some(p) => p, None => return false };
  let mut rng = Rng::new(1);
  std::panic::set_hook(Box::new(|_| {}));
  check_program(&p, &mut rng, out);
  out.notes.insert("converted".to_string(), match real_convert(&prog) { Ok(l) => json!(l.mappings.iter().map(mapping_str).collect::<Vec<_>>()), Err(e) => json!(format!("Err: {}", e)) });
  out.notes.insert("reference".to_string(), match expand(&p) {
    Ok(ex) => json!(ex.blocks.iter().map(|b| b[b.len() - 1].iter().map(mapping_str).collect::<Vec<_>>()).collect::<Vec<_>>()),
    Err(e) => json!(format!("Err: {}", e)) });
  true
}

// canonical JSON -> AST (inverse of render with vary=false; only the shapes the generator emits)
pub fn parse_program(v: &Value) -> Option<Program> {
  let ms = v.get("mappings")?.as_array()?;
  let key = |x: &Value| -> Option<KeyCode> { key_from_name(x.as_str()?) };
  let md = |x: &Value| -> Option<Md> { let s = x.as_str()?; if s.starts_with('@') { Some(Md::Alias(s.to_string())) } else { Some(Md::Key(key_from_name(s)?)) } };
  let as_list = |x: &Value| -> Vec<Value> { match x { Value::Array(a) => a.clone(), other => vec![other.clone()] } };
  let to_keys = |x: &Value| -> Option<Option<ToKeys>> {
    let l = as_list(x);
    if l.is_empty() { return Some(None); }
    let mut mods = vec![];
    for m in &l[..l.len() - 1] { mods.push(md(m)?); }
    Some(Some(ToKeys { mods, key: key(&l[l.len() - 1])? }))
  };
  let mut p = vec![];
  for m in ms {
    let from = as_list(m.get("from")?);
    let last = from.last()?;
    let mut mods = vec![];
    for x in &from[..from.len() - 1] { mods.push(md(x)?); }
    let absorbing: Vec<Md> = match m.get("absorbing") { Some(a) => { let mut v = vec![]; for x in as_list(a) { v.push(md(&x)?); } v }, None => vec![] };
    if let Some(rowname) = last.get("row").and_then(|r| r.as_str()) {
      let row = ROW_NAMES.iter().position(|n| n.eq_ignore_ascii_case(rowname))?;
      let to = as_list(m.get("to")?);
      let mut to_mods = vec![];
      for x in &to[..to.len() - 1] { to_mods.push(md(x)?); }
      let letters = to.last()?.get("letters")?.as_str()?.to_string();
      let repeat = match m.get("repeat") {
        None => RRep::Absent,
        Some(Value::String(s)) => if s.eq_ignore_ascii_case("normal") { RRep::Normal } else { RRep::Disabled },
        Some(o) => {
          let sp = o.get("Special")?;
          let k = as_list(sp.get("keys")?);
          let mut rm = vec![];
          for x in &k[..k.len() - 1] { rm.push(md(x)?); }
          RRep::Special { mods: rm, letters: k.last()?.get("letters")?.as_str()?.to_string(), delay: sp.get("delay_ms")?.as_i64()? as i32, interval: sp.get("interval_ms")?.as_i64()? as i32 }
        }
      };
      p.push(Entry::Row { mods, row, to_mods, letters, repeat, absorbing });
      continue;
    }
    let k = key(last)?;
    let srep = |r: Option<&Value>| -> Option<SRep> {
      Some(match r {
        None => SRep::Absent,
        Some(Value::String(s)) => if s.eq_ignore_ascii_case("normal") { SRep::Normal } else { SRep::Disabled },
        Some(o) => { let sp = o.get("Special")?; SRep::Special { to: to_keys(sp.get("keys")?)?, delay: sp.get("delay_ms")?.as_i64()? as i32, interval: sp.get("interval_ms")?.as_i64()? as i32 } }
      })
    };
    match m.get("to") {
      None => p.push(Entry::RepeatOnly { mods, key: k, repeat: srep(m.get("repeat"))? }),
      Some(t) => {
        let tl = as_list(t);
        if let Some(name) = tl.last().and_then(|x| x.as_str()).filter(|s| s.starts_with('@')) {
          let mut keys = vec![];
          for x in &mods { if let Md::Key(kk) = x { keys.push(*kk); } else { return None; } }
          keys.push(k);
          let mut extras = vec![];
          for x in &tl[..tl.len() - 1] { extras.push(key(x)?); }
          p.push(Entry::Alias { keys, extras, name: name.to_string() });
        }
        else { p.push(Entry::Single { mods, key: k, to: to_keys(t)?, repeat: srep(m.get("repeat"))?, absorbing }); }
      }
    }
  }
  Some(p)
}
