// The per-device loop on the REAL driver (C10, C12, C20): mio's epoll registry, the evdev and tablet-switch
// readers and the uinput writer of the repository, over three pipes instead of device nodes.
//
// The scripted world of loop_mon.rs replaces the driver; this engine keeps it and replaces the kernel side:
//   * a feeder (this thread) writes struct input_event records - key events wrapped in the EV_MSC / EV_SYN
//     records a real keyboard sends, auto-repeat records, records of other types, unknown codes - into the
//     keyboard pipe in write() calls of any size, and switch records into the tablet pipe;
//   * the loop runs in a second thread through the hook verif::run_real_driver_on_fds;
//   * this binary defines the libc symbols read, write and epoll_wait itself (as vclock.rs does for
//     clock_gettime), so every system call the real driver makes on the three descriptors passes the monitor
//     below: it numbers the calls, injects an errno at a chosen call (C20), an EINTR or an empty wake-up on
//     epoll_wait, turns "pipe empty" into ENODEV when the script says the device is gone, and gives the
//     feeder a sound "everything written so far has been consumed" signal: a read that BEGAN after the
//     feeder's write returned and came back EAGAIN.
//
// Oracle: at every such quiescent point the bytes on the output pipe, decoded independently, must be exactly
// the non-empty step outputs of a reference Mapper for the events delivered so far (release-all batch on
// switch-on, nothing while in tablet mode, a fresh mapper after switch-off), each written once, in order.
// No layout with a Special repeat is used here (the timer needs the virtual clock of the scripted world).
// Nothing here is decided by wall-clock: the watchdogs only ever yield "inconclusive", except that a loop
// found asleep in epoll_wait with unread input on three consecutive runs of the same case is reported.

use std::sync::atomic::{AtomicBool, AtomicI32, AtomicI64, AtomicU64, Ordering::SeqCst};
use std::sync::Mutex;
use std::time::{Duration, Instant};
use serde_json::{json, Value};
use crate::keys::{KeyCode, Event, Layout, Mapping, Repeat};
use crate::keys::Event::{Pressed, Released};
use crate::key_transforms::Mapper;
use crate::rng::Rng;
use crate::common::*;
use crate::layouts::*;

// ---------- the system-call monitor ----------

static ACTIVE: AtomicBool = AtomicBool::new(false);
static KBD_FD: AtomicI32 = AtomicI32::new(-1);
static TAB_FD: AtomicI32 = AtomicI32::new(-1);
static OUT_FD: AtomicI32 = AtomicI32::new(-1);
static CALLS: AtomicU64 = AtomicU64::new(0);
static FAULT_AT: AtomicI64 = AtomicI64::new(-1);
static FAULT_ERRNO: [AtomicI32; 4] = [AtomicI32::new(0), AtomicI32::new(0), AtomicI32::new(0), AtomicI32::new(0)];   // by kind of the call that is hit
static FAULT_ERRNO_USED: AtomicI32 = AtomicI32::new(0);
static FAULT_KIND: AtomicI32 = AtomicI32::new(-1);          // kind of the call the fault hit
static FAULTED: AtomicBool = AtomicBool::new(false);
static CALLS_AFTER_FAULT: AtomicU64 = AtomicU64::new(0);
static WRITES_AFTER_FAULT: AtomicU64 = AtomicU64::new(0);
static END: [AtomicBool; 2] = [AtomicBool::new(false), AtomicBool::new(false)];
static END_DELIVERED: AtomicBool = AtomicBool::new(false);
static CALLS_AFTER_END: AtomicU64 = AtomicU64::new(0);
static WRITES_AFTER_END: AtomicU64 = AtomicU64::new(0);
static BEGIN: [AtomicU64; 2] = [AtomicU64::new(0), AtomicU64::new(0)];
static EAGAIN_BEGIN: [AtomicU64; 2] = [AtomicU64::new(0), AtomicU64::new(0)];
static IN_EPOLL: AtomicBool = AtomicBool::new(false);
static EPOLL_ENTRIES: AtomicU64 = AtomicU64::new(0);
static EINTR_NEXT: AtomicBool = AtomicBool::new(false);
static SPURIOUS_NEXT: AtomicBool = AtomicBool::new(false);
static EINTR_DONE: AtomicU64 = AtomicU64::new(0);
static SPURIOUS_DONE: AtomicU64 = AtomicU64::new(0);
static OUT_REAL_EAGAIN: AtomicBool = AtomicBool::new(false);
static READS_SINCE_WAKE: AtomicU64 = AtomicU64::new(0);
static WAKES_2PLUS: AtomicU64 = AtomicU64::new(0);
static WAKES: AtomicU64 = AtomicU64::new(0);
static KINDS: Mutex<Vec<u8>> = Mutex::new(Vec::new());
// hang-up: once the script says a device is gone, its readiness is reported the way evdev reports an unplugged device
// whose queue is empty: EPOLLHUP|EPOLLERR without EPOLLIN
static HUP_MODE: AtomicBool = AtomicBool::new(false);
static HUP_DELIVERED: AtomicBool = AtomicBool::new(false);
static HUP_DEV: AtomicI32 = AtomicI32::new(0);
static READS_AT_HUP: AtomicU64 = AtomicU64::new(0);
static HUP_IGNORED: AtomicBool = AtomicBool::new(false);
// a wait with a time-out (a repeat is pending) that runs to its end and then fails with this errno (0 = off)
static LATE_EPOLL_FAULT: AtomicI32 = AtomicI32::new(0);

const K_READ_KBD: i32 = 0;
const K_READ_TAB: i32 = 1;
const K_WRITE: i32 = 2;
const K_EPOLL: i32 = 3;
const KIND_NAMES: [&str; 4] = ["read_keyboard", "read_tablet", "write_output", "epoll_wait"];

unsafe fn set_errno(e: i32) { *libc::__errno_location() = e; }
unsafe fn get_errno() -> i32 { *libc::__errno_location() }

// One numbered call of the loop. Returns Some(errno) when this call is the one to fail.
fn numbered(kind: i32) -> Option<i32> {
  let idx = CALLS.fetch_add(1, SeqCst) as i64;
  if let Ok(mut k) = KINDS.try_lock() { if k.len() < 200_000 { k.push(kind as u8); } }
  if FAULTED.load(SeqCst) {
    CALLS_AFTER_FAULT.fetch_add(1, SeqCst);
    if kind == K_WRITE { WRITES_AFTER_FAULT.fetch_add(1, SeqCst); }
  }
  if END_DELIVERED.load(SeqCst) {
    CALLS_AFTER_END.fetch_add(1, SeqCst);
    if kind == K_WRITE { WRITES_AFTER_END.fetch_add(1, SeqCst); }
  }
  if idx == FAULT_AT.load(SeqCst) && !FAULTED.load(SeqCst) {
    FAULTED.store(true, SeqCst);
    FAULT_KIND.store(kind, SeqCst);
    let e = FAULT_ERRNO[kind as usize].load(SeqCst);
    FAULT_ERRNO_USED.store(e, SeqCst);
    return Some(e);
  }
  None
}

#[cfg(not(miri))]
#[no_mangle]
pub unsafe extern "C" fn read(fd: libc::c_int, buf: *mut libc::c_void, count: libc::size_t) -> libc::ssize_t {
  if ACTIVE.load(SeqCst) && fd >= 0 {
    let dev = if fd == KBD_FD.load(SeqCst) { 0 } else if fd == TAB_FD.load(SeqCst) { 1 } else { 2 };
    if dev < 2 {
      if let Some(e) = numbered(if dev == 0 { K_READ_KBD } else { K_READ_TAB }) { set_errno(e); return -1; }
      let b = BEGIN[dev].fetch_add(1, SeqCst) + 1;
      let r = libc::syscall(libc::SYS_read, fd as libc::c_long, buf, count) as libc::ssize_t;
      if r < 0 && get_errno() == libc::EAGAIN {
        if END[dev].load(SeqCst) {
          END_DELIVERED.store(true, SeqCst);
          set_errno(libc::ENODEV);
        }
        else {
          EAGAIN_BEGIN[dev].store(b, SeqCst);
          set_errno(libc::EAGAIN);
        }
      }
      else if r > 0 && dev == 0 { READS_SINCE_WAKE.fetch_add(1, SeqCst); }
      return r;
    }
  }
  libc::syscall(libc::SYS_read, fd as libc::c_long, buf, count) as libc::ssize_t
}

#[cfg(not(miri))]
#[no_mangle]
pub unsafe extern "C" fn write(fd: libc::c_int, buf: *const libc::c_void, count: libc::size_t) -> libc::ssize_t {
  if ACTIVE.load(SeqCst) && fd >= 0 && fd == OUT_FD.load(SeqCst) {
    if let Some(e) = numbered(K_WRITE) { set_errno(e); return -1; }
    let r = libc::syscall(libc::SYS_write, fd as libc::c_long, buf, count) as libc::ssize_t;
    if r < 0 && get_errno() == libc::EAGAIN { OUT_REAL_EAGAIN.store(true, SeqCst); set_errno(libc::EAGAIN); }
    return r;
  }
  libc::syscall(libc::SYS_write, fd as libc::c_long, buf, count) as libc::ssize_t
}

#[cfg(not(miri))]
#[no_mangle]
pub unsafe extern "C" fn epoll_wait(epfd: libc::c_int, events: *mut libc::epoll_event, maxevents: libc::c_int, timeout: libc::c_int) -> libc::c_int {
  if ACTIVE.load(SeqCst) {
    if let Some(e) = numbered(K_EPOLL) { set_errno(e); return -1; }
    EPOLL_ENTRIES.fetch_add(1, SeqCst);
    if EINTR_NEXT.swap(false, SeqCst) { EINTR_DONE.fetch_add(1, SeqCst); set_errno(libc::EINTR); return -1; }
    if SPURIOUS_NEXT.swap(false, SeqCst) { SPURIOUS_DONE.fetch_add(1, SeqCst); return 0; }
    if READS_SINCE_WAKE.swap(0, SeqCst) >= 2 { WAKES_2PLUS.fetch_add(1, SeqCst); }
    if HUP_DELIVERED.load(SeqCst) && !HUP_IGNORED.load(SeqCst) && BEGIN[HUP_DEV.load(SeqCst) as usize].load(SeqCst) == READS_AT_HUP.load(SeqCst) {
      // back to waiting although the hang-up was reported and the device has not been read since
      HUP_IGNORED.store(true, SeqCst);
    }
    IN_EPOLL.store(true, SeqCst);
    let r = libc::syscall(libc::SYS_epoll_wait, epfd as libc::c_long, events, maxevents as libc::c_long, timeout as libc::c_long) as libc::c_int;
    let e = get_errno();
    IN_EPOLL.store(false, SeqCst);
    WAKES.fetch_add(1, SeqCst);
    if r == 0 && timeout > 0 && !FAULTED.load(SeqCst) {
      let le = LATE_EPOLL_FAULT.load(SeqCst);
      if le != 0 {
        // (the call comes back late as well as failed: past the deadline it was given, as after a stall of the machine)
        let ts = libc::timespec { tv_sec: 0, tv_nsec: 1_500_000 };
        libc::syscall(libc::SYS_nanosleep, &ts as *const libc::timespec, std::ptr::null_mut::<libc::timespec>());
        FAULTED.store(true, SeqCst); FAULT_KIND.store(K_EPOLL, SeqCst); FAULT_ERRNO_USED.store(le, SeqCst);
        set_errno(le);
        return -1;
      }
    }
    if r > 0 && HUP_MODE.load(SeqCst) && !HUP_DELIVERED.load(SeqCst) {
      for i in 0..(r as usize) {
        let ev = events.add(i);
        let token = (*ev).u64;
        if token < 2 && END[token as usize].load(SeqCst) {
          (*ev).events = (libc::EPOLLHUP | libc::EPOLLERR) as u32;
          HUP_DEV.store(token as i32, SeqCst);
          READS_AT_HUP.store(BEGIN[token as usize].load(SeqCst), SeqCst);
          HUP_DELIVERED.store(true, SeqCst);
        }
      }
    }
    set_errno(e);
    return r;
  }
  libc::syscall(libc::SYS_epoll_wait, epfd as libc::c_long, events, maxevents as libc::c_long, timeout as libc::c_long) as libc::c_int
}

fn reset_monitor(kbd: i32, tab: i32, out: i32, fault: Option<(u64, [i32; 4])>) {
  ACTIVE.store(false, SeqCst);
  KBD_FD.store(kbd, SeqCst); TAB_FD.store(tab, SeqCst); OUT_FD.store(out, SeqCst);
  CALLS.store(0, SeqCst);
  match fault { Some((k, e)) => { FAULT_AT.store(k as i64, SeqCst); for i in 0..4 { FAULT_ERRNO[i].store(e[i], SeqCst); } }, None => { FAULT_AT.store(-1, SeqCst); } }
  FAULT_KIND.store(-1, SeqCst);
  FAULTED.store(false, SeqCst); CALLS_AFTER_FAULT.store(0, SeqCst); WRITES_AFTER_FAULT.store(0, SeqCst);
  END[0].store(false, SeqCst); END[1].store(false, SeqCst); END_DELIVERED.store(false, SeqCst);
  CALLS_AFTER_END.store(0, SeqCst); WRITES_AFTER_END.store(0, SeqCst);
  for i in 0..2 { BEGIN[i].store(0, SeqCst); EAGAIN_BEGIN[i].store(0, SeqCst); }
  IN_EPOLL.store(false, SeqCst); EPOLL_ENTRIES.store(0, SeqCst);
  EINTR_NEXT.store(false, SeqCst); SPURIOUS_NEXT.store(false, SeqCst); EINTR_DONE.store(0, SeqCst); SPURIOUS_DONE.store(0, SeqCst);
  OUT_REAL_EAGAIN.store(false, SeqCst);
  READS_SINCE_WAKE.store(0, SeqCst); WAKES_2PLUS.store(0, SeqCst); WAKES.store(0, SeqCst);
  KINDS.lock().unwrap().clear();
  HUP_MODE.store(false, SeqCst); HUP_DELIVERED.store(false, SeqCst); HUP_IGNORED.store(false, SeqCst); READS_AT_HUP.store(0, SeqCst);
  LATE_EPOLL_FAULT.store(0, SeqCst);
  ACTIVE.store(true, SeqCst);
}

// ---------- scripts ----------

#[derive(Clone, Debug, PartialEq)]
pub enum KRec { Key(Event), Foreign(u16, u16, i32) }
#[derive(Clone, Debug, PartialEq)]
pub enum TRec { Sw(bool), Foreign(u16, u16, i32) }

#[derive(Clone, Debug, PartialEq)]
pub enum Item {
  Kb(Vec<KRec>, bool),     // one write() of these records into the keyboard pipe; true = wait until consumed
  Tab(Vec<TRec>),          // one write() into the tablet pipe, quiescent before and after
  Eintr,                   // the loop's next epoll_wait is interrupted by a signal
  Spurious,                // the loop's next epoll_wait returns without any event
  KbEnd,                   // the keyboard reports ENODEV once it has nothing more to read
  TabEnd,
  HangUp,                  // (before KbEnd / TabEnd) the end is announced as EPOLLHUP|EPOLLERR without EPOLLIN
  LateEpollFault(i32)      // from now on a wait with a time-out that runs to its end fails with this errno
}

#[derive(Clone, Debug)]
pub struct Script { pub items: Vec<Item> }

fn rec_bytes(t: u16, c: u16, v: i32) -> [u8; 24] {
  // laid out by libc's own struct (time stamps as a real device would fill them do not matter to the readers)
  let ev = libc::input_event { time: libc::timeval { tv_sec: 1_700_000_000, tv_usec: 123_456 }, type_: t, code: c, value: v };
  let mut b = [0u8; 24];
  assert!(std::mem::size_of::<libc::input_event>() == 24);
  unsafe { std::ptr::copy_nonoverlapping(&ev as *const libc::input_event as *const u8, b.as_mut_ptr(), 24); }
  b
}

fn krec_bytes(r: &KRec) -> [u8; 24] {
  match r {
    KRec::Key(Pressed(k)) => rec_bytes(1, *k as u16, 1),
    KRec::Key(Released(k)) => rec_bytes(1, *k as u16, 0),
    KRec::Foreign(t, c, v) => rec_bytes(*t, *c, *v)
  }
}
fn trec_bytes(r: &TRec) -> [u8; 24] {
  match r {
    TRec::Sw(on) => rec_bytes(5, 1, if *on { 1 } else { 0 }),
    TRec::Foreign(t, c, v) => rec_bytes(*t, *c, *v)
  }
}

fn foreign_kb(rng: &mut Rng, held: &[KeyCode]) -> KRec {
  if rng.chance(1, 3) {
    // any small (type, code, value) that is not a key press or release
    loop {
      let t = *rng.pick(&[0u16, 0, 0, 1, 2, 3, 4, 5, 0x11, 0x12, 0x14, 0x15, 0x17]);
      let c = rng.below(8) as u16;
      let v = rng.below(4) as i32 - 1;
      if t == 1 && (v == 0 || v == 1) { continue; }
      return KRec::Foreign(t, c, v);
    }
  }
  match rng.below(8) {
    0 | 1 => KRec::Foreign(4, 4, 0x70000 + rng.below(200) as i32),                       // EV_MSC / MSC_SCAN
    2 | 3 => KRec::Foreign(0, 0, 0),                                                       // EV_SYN / SYN_REPORT
    4 => match held.first() { Some(k) => KRec::Foreign(1, *k as u16, 2), None => KRec::Foreign(1, 30, 2) },   // auto-repeat
    5 => KRec::Foreign(1, *rng.pick(&[0u16, 84, 0x2ff, 0x2e8, 195, 0x1ff, 600, 767]), rng.below(2) as i32),   // codes without a name
    6 => KRec::Foreign(*rng.pick(&[2u16, 3, 17, 18, 20, 21]), rng.below(8) as u16, rng.below(3) as i32 - 1),
    _ => KRec::Foreign(0, *rng.pick(&[1u16, 2, 3]), 0)                                     // SYN_CONFIG / MT_REPORT / DROPPED
  }
}

fn foreign_tab(rng: &mut Rng) -> TRec {
  if rng.chance(1, 2) {
    // any small (type, code, value) that is not a tablet-mode switch state
    loop {
      let t = *rng.pick(&[0u16, 0, 0, 1, 2, 3, 4, 5, 5, 0x11, 0x12, 0x14, 0x15, 0x17]);
      let c = rng.below(8) as u16;
      let v = rng.below(4) as i32 - 1;
      if t == 5 && c == 1 && (v == 0 || v == 1) { continue; }
      return TRec::Foreign(t, c, v);
    }
  }
  match rng.below(5) {
    0 => TRec::Foreign(0, 0, 0),
    1 => TRec::Foreign(5, 0, rng.below(2) as i32),        // SW_LID
    2 => TRec::Foreign(5, *rng.pick(&[2u16, 3, 5, 13]), rng.below(2) as i32),
    3 => TRec::Foreign(5, 1, 2),                           // not a switch state
    _ => TRec::Foreign(1, 1, 1)                            // a key record with code 1 on the switch device
  }
}

pub struct ScriptParams { pub lockstep: bool, pub tablet: usize, pub oddities: bool, pub end: bool, pub realistic: bool }

pub fn gen_script(rng: &mut Rng, hist: &[Event], p: &ScriptParams) -> Script {
  let mut items: Vec<Item> = vec![];
  let mut held: Vec<KeyCode> = vec![];
  let mut i = 0;
  let mut odd_since_device_event = true;
  let mut tablet_on = false;
  while i < hist.len() {
    let n = match rng.below(12) { 0..=4 => 1, 5..=8 => rng.range(2, 5), 9 | 10 => rng.range(4, 24), _ => rng.range(20, 160) };
    let n = std::cmp::min(n, hist.len() - i);
    let mut recs: Vec<KRec> = vec![];
    for e in &hist[i..i + n] {
      if p.realistic { recs.push(KRec::Foreign(4, 4, 0x70004)); }
      else if rng.chance(1, 4) { recs.push(foreign_kb(rng, &held)); }
      recs.push(KRec::Key(e.clone()));
      match e { Pressed(k) => set_insert(&mut held, *k), Released(k) => set_remove(&mut held, *k) }
      if p.realistic || rng.chance(1, 3) { recs.push(KRec::Foreign(0, 0, 0)); }
      if rng.chance(1, 10) { recs.push(foreign_kb(rng, &held)); }
    }
    i += n;
    // one write() is atomic up to PIPE_BUF (4096 bytes = 170 records): longer runs become several writes
    for chunk in recs.chunks(170) {
      let sync = p.lockstep || rng.chance(1, 3);
      items.push(Item::Kb(chunk.to_vec(), sync));
    }
    odd_since_device_event = false;
    if p.tablet > 0 && rng.below(100) < p.tablet {
      let mut t: Vec<TRec> = vec![];
      let flips = if rng.chance(1, 5) { 2 } else { 1 };
      for _ in 0..flips {
        if rng.chance(1, 2) { t.push(foreign_tab(rng)); if rng.chance(1, 3) { t.push(foreign_tab(rng)); } }
        tablet_on = if rng.chance(1, 6) { tablet_on } else { !tablet_on };
        t.push(TRec::Sw(tablet_on));
        if rng.chance(1, 2) { t.push(TRec::Foreign(0, 0, 0)); }
      }
      items.push(Item::Tab(t));
    }
    if p.oddities && !odd_since_device_event && rng.chance(1, 8) {
      items.push(if rng.chance(1, 2) { Item::Eintr } else { Item::Spurious });
      odd_since_device_event = true;
    }
  }
  if p.end {
    if rng.chance(1, 2) { items.push(Item::HangUp); }
    items.push(if p.tablet > 0 && rng.chance(1, 5) { Item::TabEnd } else { Item::KbEnd });
  }
  Script { items }
}

// ---------- running one case ----------

#[derive(Debug, Clone)]
pub struct Outcome {
  pub result: Option<Result<(), String>>,     // None: the loop did not return
  pub panicked: Option<String>,
  pub sends: Vec<Vec<Event>>,                  // decoded output, one entry per SYN_REPORT-terminated write
  pub garbled: Option<String>,
  pub mismatch: Option<(usize, String)>,       // (script item index, text): output at a quiescent point differs from the reference
  pub stuck: Option<String>,                   // asleep in epoll_wait with unread input
  pub inconclusive: Option<String>,
  pub calls: u64,
  pub kinds: Vec<u8>,
  pub fault_kind: i32,
  pub fault_errno: i32,
  pub calls_after_fault: u64,
  pub writes_after_fault: u64,
  pub end_delivered: bool,
  pub hup_delivered: bool,
  pub hup_ignored: bool,
  pub writes_after_end: u64,
  pub calls_after_end: u64,
  pub wakes: u64, pub wakes_2plus: u64, pub eintr: u64, pub spurious: u64,
  pub syncs: u64, pub tablet_on: u64, pub sends_checked: u64, pub records_fed: u64, pub foreign_fed: u64, pub feeder_writes: u64
}

struct Pipe { r: i32, w: i32 }
fn mkpipe(nonblock_r: bool, nonblock_w: bool, big: bool) -> Option<Pipe> {
  let mut fds = [0i32; 2];
  unsafe {
    if libc::pipe2(fds.as_mut_ptr(), libc::O_CLOEXEC) != 0 { return None; }
    if nonblock_r { let fl = libc::fcntl(fds[0], libc::F_GETFL); libc::fcntl(fds[0], libc::F_SETFL, fl | libc::O_NONBLOCK); }
    if nonblock_w { let fl = libc::fcntl(fds[1], libc::F_GETFL); libc::fcntl(fds[1], libc::F_SETFL, fl | libc::O_NONBLOCK); }
    if big { libc::fcntl(fds[1], libc::F_SETPIPE_SZ, 1 << 20); }
  }
  Some(Pipe { r: fds[0], w: fds[1] })
}
fn close_pipe(p: &Pipe) { unsafe { libc::close(p.r); libc::close(p.w); } }

fn raw_write_all(fd: i32, bytes: &[u8]) -> bool {
  let mut off = 0;
  while off < bytes.len() {
    let r = unsafe { libc::syscall(libc::SYS_write, fd as libc::c_long, bytes[off..].as_ptr(), bytes.len() - off) };
    if r <= 0 { return false; }
    off += r as usize;
  }
  true
}

fn drain_out(fd: i32, buf: &mut Vec<u8>) {
  let mut tmp = [0u8; 65536];
  loop {
    let r = unsafe { libc::syscall(libc::SYS_read, fd as libc::c_long, tmp.as_mut_ptr(), tmp.len()) };
    if r <= 0 { break; }
    buf.extend_from_slice(&tmp[..r as usize]);
  }
}

fn unread_bytes(fd: i32) -> i32 {
  let mut n: libc::c_int = 0;
  unsafe { libc::ioctl(fd, libc::FIONREAD, &mut n as *mut libc::c_int); }
  n
}

// Independent decoding of the output pipe: 24-byte records, a write ends with (EV_SYN, SYN_REPORT, 0).
fn decode_sends(bytes: &[u8]) -> Result<Vec<Vec<Event>>, String> {
  if bytes.len() % 24 != 0 { return Err(format!("{} bytes on the output pipe is not a whole number of input_event records", bytes.len())); }
  let mut sends = vec![];
  let mut cur: Vec<Event> = vec![];
  let mut open = false;
  for c in bytes.chunks_exact(24) {
    let t = u16::from_ne_bytes([c[16], c[17]]); let code = u16::from_ne_bytes([c[18], c[19]]); let v = i32::from_ne_bytes([c[20], c[21], c[22], c[23]]);
    if t == 0 && code == 0 && v == 0 { sends.push(std::mem::take(&mut cur)); open = false; continue; }
    if t != 1 || (v != 0 && v != 1) { return Err(format!("record (type {}, code {}, value {}) on the output pipe", t, code, v)); }
    let k: KeyCode = match num_traits::FromPrimitive::from_u16(code) { Some(k) => k, None => return Err(format!("key code {} on the output pipe", code)) };
    cur.push(if v == 1 { Pressed(k) } else { Released(k) });
    open = true;
  }
  if open { return Err("the output ends without a SYN_REPORT record".to_string()); }
  Ok(sends)
}

enum Wait { Drained, Finished, Stuck }

// "Everything written to this pipe so far has been read and acted on": either a read that began after the snapshot `s`
// (taken after the feeder's write returned) came back EAGAIN, or the pipe is empty and the most recently begun read
// is one that came back EAGAIN (reads are sequential in the loop thread and each record is acted on before the next
// read begins, so every record was handled before that read).
fn consumed(dev: usize, fd: i32, s: u64) -> bool {
  if EAGAIN_BEGIN[dev].load(SeqCst) > s { return true; }
  if unread_bytes(fd) != 0 { return false; }
  let e = EAGAIN_BEGIN[dev].load(SeqCst);
  let b = BEGIN[dev].load(SeqCst);
  e > 0 && e == b
}

fn wait_until<F: Fn() -> bool>(cond: F, th: &std::thread::JoinHandle<Result<(), String>>, limit: Duration) -> Wait {
  let t0 = Instant::now();
  let mut spins = 0u32;
  loop {
    if cond() { return Wait::Drained; }
    if th.is_finished() { return Wait::Finished; }
    spins += 1;
    if spins < 2000 { std::thread::yield_now(); }
    else {
      std::thread::sleep(Duration::from_micros(100));
      if spins % 64 == 0 && t0.elapsed() > limit { return Wait::Stuck; }
    }
  }
}

pub fn strip_special(l: &Layout) -> Layout {
  let mut l = l.clone();
  for m in l.mappings.iter_mut() { if let Repeat::Special { .. } = m.repeat { m.repeat = Repeat::Disabled; } }
  l
}

pub fn run_script(layout: &Layout, script: &Script, fault: Option<(u64, [i32; 4])>) -> Outcome {
  let mut oc = Outcome { result: None, panicked: None, sends: vec![], garbled: None, mismatch: None, stuck: None, inconclusive: None, calls: 0, kinds: vec![],
    fault_kind: -1, fault_errno: 0, calls_after_fault: 0, writes_after_fault: 0, end_delivered: false, hup_delivered: false, hup_ignored: false, writes_after_end: 0, calls_after_end: 0,
    wakes: 0, wakes_2plus: 0, eintr: 0, spurious: 0, syncs: 0, tablet_on: 0, sends_checked: 0, records_fed: 0, foreign_fed: 0, feeder_writes: 0 };
  let (kb, tab, outp) = match (mkpipe(true, false, true), mkpipe(true, false, false), mkpipe(true, true, true)) {
    (Some(a), Some(b), Some(c)) => (a, b, c),
    _ => { oc.inconclusive = Some("pipe2 failed".to_string()); return oc; }
  };
  reset_monitor(kb.r, tab.r, outp.w, fault);
  let l2 = layout.clone();
  let (kfd, tfd, ofd) = (kb.r, tab.r, outp.w);
  let th = std::thread::spawn(move || crate::remapping_loop::verif::run_real_driver_on_fds(kfd, Some(tfd), ofd, l2, false));

  // the reference: the property's own words, with the real Mapper for key semantics
  let mut reference = Mapper::for_layout(layout);
  let mut in_tablet = false;
  let mut expected: Vec<Vec<Event>> = vec![];
  let mut out_bytes: Vec<u8> = vec![];
  let limit = Duration::from_secs(4);
  let mut over = false;       // the loop has returned (fault, end) or is beyond judging

  let compare = |oc: &mut Outcome, expected: &Vec<Vec<Event>>, out_bytes: &Vec<u8>, idx: usize| -> bool {
    match decode_sends(out_bytes) {
      Err(e) => { oc.garbled = Some(e); false },
      Ok(s) => {
        oc.sends_checked = s.len() as u64;
        if &s != expected {
          let first = (0..std::cmp::max(s.len(), expected.len())).find(|i| s.get(*i) != expected.get(*i)).unwrap_or(0);
          oc.mismatch = Some((idx, format!("write #{} is [{}], the mapper's output at that point is [{}] ({} writes seen, {} expected)", first,
            s.get(first).map(|x| evs_str(x)).unwrap_or("nothing".to_string()), expected.get(first).map(|x| evs_str(x)).unwrap_or("nothing".to_string()), s.len(), expected.len())));
          oc.sends = s;
          false
        } else { oc.sends = s; true }
      }
    }
  };

  for (idx, item) in script.items.iter().enumerate() {
    if over { break; }
    match item {
      // (armed once the loop sleeps in epoll_wait, so that it always hits the wait after the next arrival)
      Item::Eintr => { let _ = wait_until(|| IN_EPOLL.load(SeqCst), &th, limit); EINTR_NEXT.store(true, SeqCst); },
      Item::Spurious => { let _ = wait_until(|| IN_EPOLL.load(SeqCst), &th, limit); SPURIOUS_NEXT.store(true, SeqCst); },
      Item::Kb(recs, sync) => {
        let mut bytes: Vec<u8> = Vec::with_capacity(recs.len() * 24);
        for r in recs {
          bytes.extend_from_slice(&krec_bytes(r));
          match r {
            KRec::Key(e) => {
              oc.records_fed += 1;
              if !in_tablet { let s = reference.step(e.clone()); if !s.events.is_empty() { expected.push(s.events); } }
            },
            KRec::Foreign(..) => { oc.foreign_fed += 1; }
          }
        }
        if !raw_write_all(kb.w, &bytes) { oc.inconclusive = Some("feeder write failed".to_string()); over = true; break; }
        oc.feeder_writes += 1;
        drain_out(outp.r, &mut out_bytes);
        if *sync {
          let s = BEGIN[0].load(SeqCst);
          match wait_until(|| consumed(0, kb.r, s), &th, limit) {
            Wait::Drained => {
              oc.syncs += 1;
              drain_out(outp.r, &mut out_bytes);
              if !compare(&mut oc, &expected, &out_bytes, idx) { over = true; }
            },
            Wait::Finished => { over = true; },
            Wait::Stuck => {
              if IN_EPOLL.load(SeqCst) && unread_bytes(kb.r) > 0 {
                oc.stuck = Some(format!("after item {} the loop sleeps in epoll_wait (entry #{}) while {} bytes of keyboard input are unread", idx, EPOLL_ENTRIES.load(SeqCst), unread_bytes(kb.r)));
              } else { oc.inconclusive = Some(format!("watchdog while waiting for item {} to be consumed", idx)); }
              over = true;
            }
          }
        }
      },
      Item::Tab(recs) => {
        // quiescent first, so that the order of keyboard and switch events is the script's order
        let s0 = BEGIN[0].load(SeqCst);
        if oc.feeder_writes > 0 {
          match wait_until(|| consumed(0, kb.r, s0), &th, limit) {
            Wait::Drained => (),
            Wait::Finished => { over = true; continue; },
            Wait::Stuck => {
              if IN_EPOLL.load(SeqCst) && unread_bytes(kb.r) > 0 { oc.stuck = Some(format!("before item {} the loop sleeps in epoll_wait while {} bytes of keyboard input are unread", idx, unread_bytes(kb.r))); }
              else { oc.inconclusive = Some(format!("watchdog before item {}", idx)); }
              over = true; continue;
            }
          }
          // the keyboard pipe is empty and a read that began after our last write saw it empty?
          // (the second alternative above is only a fast path: make sure with a proper sync)
          if unread_bytes(kb.r) != 0 { oc.inconclusive = Some("keyboard pipe not empty at a switch event".to_string()); over = true; continue; }
        }
        let mut bytes: Vec<u8> = vec![];
        for r in recs {
          bytes.extend_from_slice(&trec_bytes(r));
          if let TRec::Sw(on) = r {
            let rel = reference.release_all();
            if !rel.is_empty() { expected.push(rel); }
            if *on { in_tablet = true; oc.tablet_on += 1; }
            else { in_tablet = false; reference = Mapper::for_layout(layout); }
          }
        }
        if !raw_write_all(tab.w, &bytes) { oc.inconclusive = Some("feeder write failed".to_string()); over = true; break; }
        oc.feeder_writes += 1;
        let s = BEGIN[1].load(SeqCst);
        match wait_until(|| consumed(1, tab.r, s), &th, limit) {
          Wait::Drained => {
            oc.syncs += 1;
            drain_out(outp.r, &mut out_bytes);
            if !compare(&mut oc, &expected, &out_bytes, idx) { over = true; }
          },
          Wait::Finished => { over = true; },
          Wait::Stuck => {
            if IN_EPOLL.load(SeqCst) && unread_bytes(tab.r) > 0 { oc.stuck = Some(format!("after item {} the loop sleeps in epoll_wait while {} bytes of switch input are unread", idx, unread_bytes(tab.r))); }
            else { oc.inconclusive = Some(format!("watchdog while waiting for item {} to be consumed", idx)); }
            over = true;
          }
        }
      },
      Item::HangUp => { HUP_MODE.store(true, SeqCst); },
      Item::LateEpollFault(e) => { LATE_EPOLL_FAULT.store(*e, SeqCst); },
      Item::KbEnd | Item::TabEnd => {
        let dev = if *item == Item::KbEnd { 0 } else { 1 };
        // quiescent first: everything written so far is consumed and compared
        if oc.feeder_writes > 0 {
          let s0 = BEGIN[0].load(SeqCst);
          match wait_until(|| consumed(0, kb.r, s0), &th, limit) { Wait::Drained => (), Wait::Finished => { over = true; continue; }, Wait::Stuck => {
            if IN_EPOLL.load(SeqCst) && unread_bytes(kb.r) > 0 { oc.stuck = Some(format!("before item {} the loop sleeps in epoll_wait while {} bytes of keyboard input are unread", idx, unread_bytes(kb.r))); }
            else { oc.inconclusive = Some("watchdog before end-of-device".to_string()); }
            over = true; continue; } }
        }
        END[dev].store(true, SeqCst);
        // one skipped record wakes the loop; the read after it finds the pipe empty and is answered ENODEV
        let poke = if dev == 0 { rec_bytes(0, 0, 0) } else { rec_bytes(0, 0, 0) };
        if !raw_write_all(if dev == 0 { kb.w } else { tab.w }, &poke) { oc.inconclusive = Some("feeder write failed".to_string()); }
        over = true;
      }
    }
  }

  // a script without an end-of-device item gets one now (the keyboard goes away), unless the loop is already beyond judging
  let explicit_end = script.items.iter().any(|i| *i == Item::KbEnd || *i == Item::TabEnd);
  let late = script.items.iter().any(|i| matches!(i, Item::LateEpollFault(_)));
  if late && !over && !th.is_finished() {
    // the last event started a repeat: the loop now waits with a time-out, which runs out and then fails
    if let Wait::Stuck = wait_until(|| FAULTED.load(SeqCst), &th, limit) { oc.inconclusive = Some("no timed wait ran to its end".to_string()); }
  }
  if !over && !explicit_end && !late && !th.is_finished() {
    let s0 = BEGIN[0].load(SeqCst);
    let quiet = if oc.feeder_writes > 0 { match wait_until(|| consumed(0, kb.r, s0), &th, limit) { Wait::Drained => true, Wait::Finished => false, Wait::Stuck => {
      if IN_EPOLL.load(SeqCst) && unread_bytes(kb.r) > 0 { oc.stuck = Some(format!("at the end of the script the loop sleeps in epoll_wait while {} bytes of keyboard input are unread", unread_bytes(kb.r))); }
      else { oc.inconclusive = Some("watchdog at the end of the script".to_string()); }
      false } } } else { true };
    if quiet {
      drain_out(outp.r, &mut out_bytes);
      let n = script.items.len();
      compare(&mut oc, &expected, &out_bytes, n);
      END[0].store(true, SeqCst);
      raw_write_all(kb.w, &rec_bytes(0, 0, 0));
    }
  }
  // the loop has been given every reason to return; a loop that instead goes on calling the driver shows in the counters
  if oc.stuck.is_none() && oc.inconclusive.is_none() && !th.is_finished() {
    match wait_until(|| FAULTED.load(SeqCst) && CALLS_AFTER_FAULT.load(SeqCst) > 0 || END_DELIVERED.load(SeqCst) && CALLS_AFTER_END.load(SeqCst) > 0 || HUP_IGNORED.load(SeqCst), &th, limit) {
      Wait::Stuck => { oc.inconclusive = Some("watchdog while waiting for the loop to return".to_string()); },
      _ => ()
    }
  }
  let finished_by_itself = th.is_finished();
  if !finished_by_itself {
    HUP_MODE.store(false, SeqCst);
    LATE_EPOLL_FAULT.store(0, SeqCst);
    END[0].store(true, SeqCst);
    raw_write_all(kb.w, &rec_bytes(0, 0, 0));
    let t0 = Instant::now();
    while !th.is_finished() && t0.elapsed() < Duration::from_secs(6) { std::thread::sleep(Duration::from_micros(200)); }
  }
  oc.calls = CALLS.load(SeqCst);
  oc.fault_kind = FAULT_KIND.load(SeqCst);
  oc.fault_errno = FAULT_ERRNO_USED.load(SeqCst);
  oc.calls_after_fault = CALLS_AFTER_FAULT.load(SeqCst);
  oc.writes_after_fault = WRITES_AFTER_FAULT.load(SeqCst);
  oc.end_delivered = END_DELIVERED.load(SeqCst);
  oc.hup_delivered = HUP_DELIVERED.load(SeqCst);
  oc.hup_ignored = HUP_IGNORED.load(SeqCst);
  oc.writes_after_end = WRITES_AFTER_END.load(SeqCst);
  oc.calls_after_end = CALLS_AFTER_END.load(SeqCst);
  if th.is_finished() {
    match th.join() {
      Ok(r) => { if finished_by_itself { oc.result = Some(r); } else { oc.result = None; if oc.stuck.is_none() && oc.inconclusive.is_none() && FAULTED.load(SeqCst) { /* judged from the counters */ } } },
      Err(p) => { oc.panicked = Some(p.downcast_ref::<String>().cloned().or(p.downcast_ref::<&str>().map(|s| s.to_string())).unwrap_or("panic".to_string())); }
    }
    ACTIVE.store(false, SeqCst);
    drain_out(outp.r, &mut out_bytes);
    close_pipe(&kb); close_pipe(&tab); close_pipe(&outp);
  }
  else {
    // the thread is leaked together with its descriptors; later cases use new ones
    ACTIVE.store(false, SeqCst);
    if oc.inconclusive.is_none() && oc.stuck.is_none() { oc.inconclusive = Some("the loop thread could not be made to return".to_string()); }
  }
  oc.wakes = WAKES.load(SeqCst); oc.wakes_2plus = WAKES_2PLUS.load(SeqCst); oc.eintr = EINTR_DONE.load(SeqCst); oc.spurious = SPURIOUS_DONE.load(SeqCst);
  oc.kinds = KINDS.lock().unwrap().clone();
  if OUT_REAL_EAGAIN.load(SeqCst) && oc.inconclusive.is_none() { oc.inconclusive = Some("the output pipe filled up".to_string()); }
  // final comparison: whatever was written in total (also after the last quiescent point)
  if oc.garbled.is_none() && oc.mismatch.is_none() && oc.stuck.is_none() && oc.inconclusive.is_none() && fault.is_none() && oc.panicked.is_none() {
    let n = script.items.len();
    compare(&mut oc, &expected, &out_bytes, n);
  }
  else if let Ok(s) = decode_sends(&out_bytes) { oc.sends = s; }
  oc
}

// ---------- verdicts ----------

pub struct RV { pub property: &'static str, pub clause: &'static str, pub signature: String, pub message: String }

fn errno_texts(e: i32) -> Vec<String> {
  let en = nix::errno::Errno::from_i32(e);
  vec![format!("{:?}", en), en.desc().to_string(), format!("os error {}", e)]
}

pub fn judge(script: &Script, fault: Option<(u64, [i32; 4])>, oc: &Outcome) -> Vec<RV> {
  let mut v = vec![];
  if oc.inconclusive.is_some() { return v; }
  if let Some(p) = &oc.panicked {
    v.push(RV { property: if fault.is_some() { "C20" } else { "C10" }, clause: "panic", signature: "real-driver:loop-panicked".to_string(), message: format!("the per-device loop on the real driver panicked: {}", p) });
    return v;
  }
  if let Some(g) = &oc.garbled { v.push(RV { property: "C10", clause: "output", signature: "C10:real-driver-garbled-output".to_string(), message: g.clone() }); }
  let late = script.items.iter().any(|i| matches!(i, Item::LateEpollFault(_)));
  let fault_eff: Option<u64> = fault.map(|f| f.0).or(if late { Some(u64::MAX) } else { None });
  match fault_eff {
    None => {
      if let Some((idx, m)) = &oc.mismatch {
        // attribute: a difference that arises at a switch item or in tablet mode is C12's
        let at_tab = script.items.get(*idx).map(|i| matches!(i, Item::Tab(_))).unwrap_or(false);
        let tablet_before = script.items.iter().take(*idx).any(|i| matches!(i, Item::Tab(_)));
        let (p, sig) = if at_tab || tablet_before { ("C12", "C12:real-driver-output-differs") } else { ("C10", "C10:real-driver-output-differs") };
        v.push(RV { property: p, clause: "output", signature: sig.to_string(), message: format!("at script item {}: {}", idx, m) });
      }
      if let Some(s) = &oc.stuck { v.push(RV { property: "C10", clause: "unread", signature: "C10:real-driver-waits-with-unread-events".to_string(), message: s.clone() }); }
      if oc.hup_ignored {
        v.push(RV { property: "C10", clause: "end", signature: "C10:real-driver-ignores-hang-up".to_string(), message: "the device was reported gone (EPOLLHUP|EPOLLERR, nothing to read) and the loop went back to waiting without reading it or returning".to_string() });
      }
      if oc.end_delivered && oc.stuck.is_none() && !oc.hup_ignored {
        if oc.writes_after_end > 0 { v.push(RV { property: "C10", clause: "end", signature: "C10:real-driver-write-after-end-of-device".to_string(), message: format!("{} write(s) to the virtual keyboard after the device answered ENODEV", oc.writes_after_end) }); }
        match &oc.result {
          Some(Ok(())) => (),
          Some(Err(e)) => v.push(RV { property: "C10", clause: "end", signature: "C10:real-driver-end-of-device-is-an-error".to_string(), message: format!("the device answered ENODEV and the loop returned Err({:?})", e) }),
          None => if oc.calls_after_end > 0 { v.push(RV { property: "C10", clause: "end", signature: "C10:real-driver-does-not-stop-at-end-of-device".to_string(), message: format!("the device answered ENODEV and the loop went on ({} further driver calls)", oc.calls_after_end) }) }
        }
      }
    },
    Some(k) => {
      if oc.fault_kind < 0 { return v; }      // the call to fail was never reached
      let e = oc.fault_errno;
      let k = if k == u64::MAX { oc.calls } else { k };
      let kind = KIND_NAMES[oc.fault_kind as usize];
      let gone = e == libc::ENODEV && (oc.fault_kind == K_READ_KBD || oc.fault_kind == K_READ_TAB);
      if oc.writes_after_fault > 0 {
        v.push(RV { property: if gone { "C10" } else { "C20" }, clause: "write-after", signature: format!("{}:real-driver-write-after-failed-{}", if gone { "C10" } else { "C20" }, kind),
          message: format!("call #{} ({}) failed with errno {}; {} write(s) to the virtual keyboard followed", k, kind, e, oc.writes_after_fault) });
      }
      match &oc.result {
        None => if oc.calls_after_fault > 0 { v.push(RV { property: if gone { "C10" } else { "C20" }, clause: "continues", signature: format!("{}:real-driver-continues-after-failed-{}", if gone { "C10" } else { "C20" }, kind),
          message: format!("call #{} ({}) failed with errno {} and the loop went on with {} further driver call(s)", k, kind, e, oc.calls_after_fault) }); },
        Some(Ok(())) => if !gone {
          v.push(RV { property: "C20", clause: "swallowed", signature: format!("C20:real-driver-error-not-returned-{}", kind), message: format!("call #{} ({}) failed with errno {} and the loop returned Ok", k, kind, e) });
        },
        Some(Err(msg)) => {
          if gone { v.push(RV { property: "C10", clause: "end", signature: "C10:real-driver-end-of-device-is-an-error".to_string(), message: format!("read #{} answered ENODEV and the loop returned Err({:?})", k, msg) }); }
          else if !errno_texts(e).iter().any(|t| msg.contains(t.as_str())) {
            v.push(RV { property: "C20", clause: "other-error", signature: format!("C20:real-driver-different-error-returned-{}", kind), message: format!("call #{} ({}) failed with errno {} ({}), the loop returned Err({:?})", k, kind, e, errno_texts(e)[1], msg) });
          }
          if oc.calls_after_fault > 0 && oc.writes_after_fault == 0 {
            v.push(RV { property: "C20", clause: "continues", signature: format!("C20:real-driver-calls-after-failed-{}", kind), message: format!("call #{} ({}) failed with errno {}; {} further driver call(s) before the loop returned", k, kind, e, oc.calls_after_fault) });
          }
        }
      }
    }
  }
  v
}

// ---------- JSON ----------

fn krec_json(r: &KRec) -> Value { match r { KRec::Key(e) => json!(ev_str(e)), KRec::Foreign(t, c, v) => json!([t, c, v]) } }
fn trec_json(r: &TRec) -> Value { match r { TRec::Sw(on) => json!(if *on { "ON" } else { "OFF" }), TRec::Foreign(t, c, v) => json!([t, c, v]) } }
pub fn script_json(s: &Script) -> Value {
  Value::Array(s.items.iter().map(|i| match i {
    Item::Kb(r, sync) => json!({ "kb": r.iter().map(krec_json).collect::<Vec<_>>(), "sync": sync }),
    Item::Tab(r) => json!({ "tab": r.iter().map(trec_json).collect::<Vec<_>>() }),
    Item::Eintr => json!("EINTR"), Item::Spurious => json!("SPURIOUS"), Item::KbEnd => json!("KB_END"), Item::TabEnd => json!("TAB_END"),
    Item::HangUp => json!("HANG_UP"), Item::LateEpollFault(e) => json!({ "late_epoll_fault": e })
  }).collect())
}
fn foreign_parse(v: &Value) -> Option<(u16, u16, i32)> { let a = v.as_array()?; Some((a.get(0)?.as_u64()? as u16, a.get(1)?.as_u64()? as u16, a.get(2)?.as_i64()? as i32)) }
pub fn script_parse(v: &Value) -> Option<Script> {
  let mut items = vec![];
  for i in v.as_array()? {
    if let Some(s) = i.as_str() { items.push(match s { "EINTR" => Item::Eintr, "SPURIOUS" => Item::Spurious, "KB_END" => Item::KbEnd, "TAB_END" => Item::TabEnd, "HANG_UP" => Item::HangUp, _ => return None }); continue; }
    if let Some(e) = i.get("late_epoll_fault") { items.push(Item::LateEpollFault(e.as_i64()? as i32)); continue; }
    if let Some(k) = i.get("kb") {
      let mut r = vec![];
      for x in k.as_array()? { if let Some(s) = x.as_str() { r.push(KRec::Key(ev_parse(s)?)); } else { let (t, c, v) = foreign_parse(x)?; r.push(KRec::Foreign(t, c, v)); } }
      items.push(Item::Kb(r, i.get("sync").and_then(|b| b.as_bool()).unwrap_or(true)));
    }
    else if let Some(k) = i.get("tab") {
      let mut r = vec![];
      for x in k.as_array()? { if let Some(s) = x.as_str() { r.push(TRec::Sw(s == "ON")); } else { let (t, c, v) = foreign_parse(x)?; r.push(TRec::Foreign(t, c, v)); } }
      items.push(Item::Tab(r));
    }
    else { return None; }
  }
  Some(Script { items })
}

fn replay_obj(prop: &str, source: &str, layout: &Layout, script: &Script, fault: Option<(u64, [i32; 4])>) -> Value {
  json!({ "engine": "realdrv", "property": prop, "source": source, "layout": serde_json::to_value(layout).unwrap(), "layout_text": layout_str(layout),
    "script": script_json(script), "fault": fault.map(|f| json!([f.0, f.1[0], f.1[1], f.1[2], f.1[3]])) })
}

// A sleeping loop with unread input is only reported when the same case shows it three times in a row.
fn run_confirmed(layout: &Layout, script: &Script, fault: Option<(u64, [i32; 4])>) -> Outcome {
  let oc = run_script(layout, script, fault);
  if oc.stuck.is_none() { return oc; }
  for _ in 0..2 {
    let again = run_script(layout, script, fault);
    if again.stuck.is_none() { let mut a = again; if a.inconclusive.is_none() && a.mismatch.is_none() { a.inconclusive = Some("a sleeping loop was seen once and not again".to_string()); } return a; }
  }
  oc
}

fn record(out: &mut ShardOut, prop: &str, rvs: &[RV], source: &str, layout: &Layout, script: &Script, fault: Option<(u64, [i32; 4])>) -> bool {
  let mut any = false;
  for rv in rvs {
    if rv.property != prop && !(rv.clause == "panic") { out.count(&format!("realdrv_observations_for_{}", rv.property)); continue; }
    any = true;
    out.violation(Violation { property: prop.to_string(), clause: rv.clause.to_string(), signature: rv.signature.clone(), message: rv.message.clone(),
      replay: replay_obj(prop, source, layout, script, fault) });
  }
  any
}

const READ_ERRNOS: [i32; 9] = [libc::EIO, libc::EBADF, libc::EINVAL, libc::EFAULT, libc::EISDIR, libc::ENOMEM, libc::ENXIO, libc::ENODEV, libc::ENODEV];
const WRITE_ERRNOS: [i32; 9] = [libc::EIO, libc::ENOSPC, libc::EPIPE, libc::EINVAL, libc::EBADF, libc::EAGAIN, libc::ENODEV, libc::EFBIG, libc::ENOMEM];
const EPOLL_ERRNOS: [i32; 3] = [libc::EBADF, libc::EINVAL, libc::EFAULT];

// The phase of the loop checks that runs on the real driver.
pub fn phase(out: &mut ShardOut, opts: &Opts, rng: &mut Rng, cases: &[LayoutCase]) {
  let prop = opts.prop.clone();
  let thorough = opts.thorough();
  let n_cases = opts.num("realdrv", match (prop.as_str(), thorough) { ("C20", false) => 250, ("C20", true) => 5000, (_, false) => 12000, (_, true) => 300000 }) as usize;
  if n_cases == 0 || cases.is_empty() { return; }
  let specials: Vec<&LayoutCase> = cases.iter().filter(|c| c.has_special).collect();
  let mut bad = 0;
  for ci in 0..n_cases {
    if bad >= 3 { break; }
    let case = if prop == "C20" && ci % 2 == 0 && !specials.is_empty() { specials[rng.below(specials.len())] } else { &cases[rng.below(cases.len())] };
    let layout = strip_special(&case.layout);
    let (hlen, nm) = match rng.below(300) { 0 => (rng.range(1100, 2600), 4), 1..=8 => (rng.range(30, 90), 20), _ => (rng.range(3, if thorough { 60 } else { 36 }), 4) };
    let wide_case;
    let case2 = if nm > 4 {
      let mut c = case.clone();
      for _ in 0..20 { let k = any_key(rng); if !c.layout_keys.contains(&k) { set_insert(&mut c.alphabet, k); } }
      wide_case = c; &wide_case
    } else { case };
    let hist = crate::loop_mon::gen_history(rng, case2, hlen, nm);
    if prop == "C20" && case.has_special && ci % 2 == 0 {
      // a repeat is pending, the timed wait runs to its end and THEN fails (a failure is not always immediate)
      let mut l2 = case.layout.clone();
      for m in l2.mappings.iter_mut() { if let Repeat::Special { delay_ms, interval_ms, .. } = &mut m.repeat { *delay_ms = 1 + (delay_ms.unsigned_abs() % 12) as i32; *interval_ms = 1 + (interval_ms.unsigned_abs() % 8) as i32; } }
      let mut reference = Mapper::for_layout(&l2);
      let mut cut = None;
      for (i, e) in hist.iter().enumerate() {
        if let crate::key_transforms::ResultingRepeat::Repeating { .. } = reference.step(e.clone()).repeat { cut = Some(i); break; }
      }
      let cut = match cut { Some(c) => c, None => { out.count("realdrv_late_fault_histories_without_a_special_firing"); continue; } };
      let sp = ScriptParams { lockstep: true, tablet: 0, oddities: false, end: false, realistic: rng.chance(1, 2) };
      let mut script = gen_script(rng, &hist[..=cut], &sp);
      let e = *rng.pick(&EPOLL_ERRNOS);
      script.items.insert(0, Item::LateEpollFault(e));
      let oc = run_script(&l2, &script, None);
      out.count("realdrv_cases");
      if oc.inconclusive.is_some() { out.count("realdrv_inconclusive_runs"); out.notes.insert("realdrv_last_inconclusive".to_string(), json!(oc.inconclusive)); continue; }
      if oc.fault_kind < 0 { out.count("realdrv_fault_point_not_reached"); continue; }
      out.count("realdrv_fault_runs");
      out.count("realdrv_late_failures_of_a_timed_wait");
      out.nontrivial(hash64(&(case.id, hash_str(&script_json(&script).to_string()), e, 0x1a7eu32)));
      let rvs = judge(&script, None, &oc);
      if record(out, &prop, &rvs, &case.source, &l2, &script, None) { bad += 1; }
      continue;
    }
    if prop == "C20" {
      let sp = ScriptParams { lockstep: true, tablet: if rng.chance(1, 2) { 15 } else { 0 }, oddities: rng.chance(1, 3), end: rng.chance(1, 3), realistic: rng.chance(1, 3) };
      let hist: Vec<Event> = hist.into_iter().take(40).collect();
      let script = gen_script(rng, &hist, &sp);
      let base = run_script(&layout, &script, None);
      out.count("realdrv_cases");
      if let Some(r) = &base.inconclusive { out.count("realdrv_inconclusive_runs"); out.notes.insert("realdrv_last_inconclusive".to_string(), json!(r)); continue; }
      let n = base.kinds.len() as u64;
      out.add("realdrv_driver_calls", n);
      let stride = if n <= 80 || thorough && n <= 300 { 1 } else { 1 + n / (if thorough { 300 } else { 80 }) };
      let mut k = rng.below(stride as usize) as u64;
      while k < n {
        // the errno is chosen per kind of call, and the monitor applies the one that fits the call it actually hits
        // (the numbering of calls can differ by one or two between two runs of the same script)
        let er = *rng.pick(&READ_ERRNOS);
        let es = [er, er, *rng.pick(&WRITE_ERRNOS), *rng.pick(&EPOLL_ERRNOS)];
        let oc = run_script(&layout, &script, Some((k, es)));
        let e = oc.fault_errno;
        out.count("realdrv_fault_runs");
        if oc.inconclusive.is_some() { out.count("realdrv_inconclusive_runs"); k += stride; continue; }
        if oc.fault_kind < 0 { out.count("realdrv_fault_point_not_reached"); k += stride; continue; }
        out.count(&format!("realdrv_faults_at_{}", KIND_NAMES[oc.fault_kind as usize]));
        if e == libc::ENODEV && oc.fault_kind <= K_READ_TAB { out.count("realdrv_enodev_reads"); }
        out.nontrivial(hash64(&(case.id, hash_str(&script_json(&script).to_string()), k, e, 0x7ea1u32)));
        let rvs = judge(&script, Some((k, es)), &oc);
        if record(out, &prop, &rvs, &case.source, &layout, &script, Some((k, es))) { bad += 1; break; }
        if out.get("realdrv_samples") < 2 && oc.fault_kind == K_WRITE && k > 8 {
          out.count("realdrv_samples");
          out.sample(json!({ "real_driver": true, "layout": layout_str(&layout), "script": script_json(&script), "failed_call": k, "kind": KIND_NAMES[oc.fault_kind as usize], "errno": e,
            "returned": format!("{:?}", oc.result), "driver_calls_after_the_failure": oc.calls_after_fault, "writes_before_the_failure": oc.sends.len() }));
        }
        k += stride;
      }
    }
    else {
      let sp = ScriptParams { lockstep: rng.chance(1, 4), tablet: match prop.as_str() { "C12" => 35, _ => if rng.chance(1, 3) { 10 } else { 0 } }, oddities: rng.chance(1, 2), end: rng.chance(2, 3), realistic: rng.chance(1, 3) };
      let script = gen_script(rng, &hist, &sp);
      let oc = run_confirmed(&layout, &script, None);
      out.count("realdrv_cases");
      if hlen >= 1000 { out.count("realdrv_floods"); }
      if let Some(r) = &oc.inconclusive { out.count("realdrv_inconclusive_runs"); out.notes.insert("realdrv_last_inconclusive".to_string(), json!(r)); continue; }
      out.add("realdrv_key_records", oc.records_fed); out.add("realdrv_foreign_records", oc.foreign_fed); out.add("realdrv_feeder_writes", oc.feeder_writes);
      out.add("realdrv_quiescent_points_compared", oc.syncs); out.add("realdrv_wakeups", oc.wakes); out.add("realdrv_wakeups_with_2plus_key_records", oc.wakes_2plus);
      out.add("realdrv_interruptions", oc.eintr); out.add("realdrv_empty_wakeups", oc.spurious); out.add("realdrv_writes_compared", oc.sends.len() as u64);
      out.add("realdrv_switch_on", oc.tablet_on); out.add("realdrv_driver_calls", oc.calls);
      if oc.hup_delivered { out.count("realdrv_hang_ups_reported"); }
      if oc.end_delivered { out.count(if script.items.last() == Some(&Item::TabEnd) { "realdrv_end_tablet" } else { "realdrv_end_keyboard" }); }
      if oc.wakes_2plus > 0 || oc.tablet_on > 0 { out.nontrivial(hash64(&(case.id, hash_str(&script_json(&script).to_string()), 0x7ea1u32))); }
      let rvs = judge(&script, None, &oc);
      if record(out, &prop, &rvs, &case.source, &layout, &script, None) { bad += 1; }
      if out.get("realdrv_samples") < 2 && oc.wakes_2plus > 0 && ci > 3 && hlen < 30 {
        out.count("realdrv_samples");
        out.sample(json!({ "real_driver": true, "layout": layout_str(&layout), "script": script_json(&script), "writes_seen_on_the_output_pipe": oc.sends.iter().map(|s| evs_str(s)).collect::<Vec<_>>(),
          "epoll_wakeups": oc.wakes, "wakeups_that_delivered_2plus_key_records": oc.wakes_2plus, "returned": format!("{:?}", oc.result) }));
      }
    }
  }
}

pub fn replay(rep: &Value, out: &mut ShardOut) -> bool {
  let layout: Layout = match rep.get("layout").and_then(|l| serde_json::from_value(l.clone()).ok()) { Some(l) => l, None => return false };
  let script = match rep.get("script").and_then(script_parse) { Some(s) => s, None => return false };
  let prop = rep.get("property").and_then(|p| p.as_str()).unwrap_or("C10").to_string();
  let fault = rep.get("fault").and_then(|f| f.as_array()).and_then(|a| { let g = |i: usize| a.get(i).and_then(|x| x.as_i64()).map(|x| x as i32); let e0 = g(1)?; Some((a.get(0)?.as_u64()?, [e0, g(2).unwrap_or(e0), g(3).unwrap_or(e0), g(4).unwrap_or(e0)])) });
  std::panic::set_hook(Box::new(|_| {}));
  let oc = run_confirmed(&layout, &script, fault);
  let rvs = judge(&script, fault, &oc);
  out.notes.insert("returned".to_string(), json!(format!("{:?}", oc.result)));
  out.notes.insert("writes".to_string(), json!(oc.sends.iter().map(|s| evs_str(s)).collect::<Vec<_>>()));
  out.notes.insert("driver_calls".to_string(), json!(oc.calls));
  if let Some(i) = &oc.inconclusive { out.notes.insert("inconclusive".to_string(), json!(i)); }
  for rv in rvs {
    if rv.property != prop && rv.clause != "panic" { continue; }
    out.violation(Violation { property: prop.clone(), clause: rv.clause.to_string(), signature: rv.signature, message: rv.message, replay: rep.clone() });
  }
  true
}
