// C16: device selection.
// (1) hook level: generated /proc/bus/input/devices texts through the two real
//     extractors; each entry must classify as it does alone (no leakage from
//     neighbours) and the two extractors must agree; the exclusion functions
//     against an independent glob matcher.
// (2) end to end: the real totalmapper binary in a private mount namespace
//     with a fabricated /proc/bus/input/devices, /sys/devices and /dev/input;
//     --all-keyboards and --dev-file --only-if-keyboard must select exactly
//     {keyboard-like by its own entry} - {virtual input tree} - {excluded by name}.

use std::ffi::CString;
use std::path::PathBuf;
use std::process::{Command, Stdio};
use serde_json::{json, Value};
use crate::keyboard_listing::verif::{extract_keyboards, extract_input_devices, extract_keyboards_with, extract_input_devices_with};
use crate::keyboard_listing::{ExtractedKeyboard, ExtractedInputDevice};
use crate::remapping_loop::verif::{flag_excluded_keyboards, flag_excluded_devices};
use crate::rng::Rng;
use crate::common::*;
use crate::layouts::verif_root;

// independent glob matcher: '*' = any sequence, '?' = exactly one character, everything else literal; whole-string match
pub fn glob_match(pat: &str, text: &str) -> bool {
  let p: Vec<char> = pat.chars().collect();
  let t: Vec<char> = text.chars().collect();
  let mut dp = vec![vec![false; t.len() + 1]; p.len() + 1];
  dp[0][0] = true;
  for i in 1..=p.len() {
    if p[i - 1] == '*' { dp[i][0] = dp[i - 1][0]; }
    for j in 1..=t.len() {
      dp[i][j] = match p[i - 1] {
        '*' => dp[i - 1][j] || dp[i][j - 1],
        '?' => dp[i - 1][j - 1],
        c => dp[i - 1][j - 1] && c == t[j - 1]
      };
    }
  }
  dp[p.len()][t.len()]
}

#[derive(Clone, Debug)]
pub struct Entry { pub lines: Vec<String> }

impl Entry {
  fn text(&self) -> String { let mut s = self.lines.join("\n"); s.push('\n'); s }
  fn field(&self, prefix: &str) -> Option<String> { self.lines.iter().find(|l| l.starts_with(prefix)).map(|l| l[prefix.len()..].to_string()) }
  fn sysfs(&self) -> Option<String> { self.field("S: Sysfs=") }
  fn set(&mut self, prefix: &str, value: &str) { for l in self.lines.iter_mut() { if l.starts_with(prefix) { *l = format!("{}{}", prefix, value); } } }
  fn drop_field(&mut self, prefix: &str) { self.lines.retain(|l| !l.starts_with(prefix)); }
  fn event_number(&self) -> Option<u32> {
    let h = self.field("H: Handlers=")?;
    h.split_whitespace().find(|w| w.starts_with("event")).and_then(|w| w[5..].parse().ok())
  }
}

pub fn load_corpus() -> Vec<Entry> {
  let path = format!("{}/corpus/devices/entries.txt", verif_root());
  let text = std::fs::read_to_string(&path).unwrap_or_default();
  text.split("\n\n").map(|e| e.trim()).filter(|e| e.starts_with("I:")).map(|e| Entry { lines: e.lines().map(|l| l.to_string()).collect() }).collect()
}

const NAMES: [&str; 18] = [
  "AT Translated Set 2 keyboard", "Logitech USB Receiver Mouse", "Keychron K2 Keyboard", "SONiX USB DEVICE", "cros_ec", "Gaming Mouse Keyboard",
  "My \"quoted\" keyboard", "Tastatur – büro ⌨", "Mouse", "KEYBOARD", "a*b?c", "  spaced name  ", "Power Button", "x", "Razer Razer Huntsman Mini",
  "HID 04d9:a0cd Mouse", "ThinkPad Extra Buttons", "Dell Mouse"
];
const KEY_MASKS: [&str; 9] = [
  "402000000 3803078f800d001 feffffdfffefffff fffffffffffffffe",      // full keyboard
  "1000000000007 ff9f207ac14057ff febeffdfffefffff fffffffffffffffe",  // full keyboard, other extras
  "ffff0000 0 0 0 0",                                                  // mouse buttons
  "10000000000000 0",                                                  // power button
  "3e000b00000000 0 0 0",                                              // video bus
  "0",
  "1f0000 4000000000000 0 4000000100000",                              // includes SCROLLDOWN-ish bits
  "zz not hex",
  "4000000000000 ffffffff00000000 fffffffffffffffe"                    // many keys, few normal ones
];
const EV_MASKS: [&str; 6] = ["120013", "100013", "13", "3", "17", "21"];

pub struct GenText { pub entries: Vec<Entry>, pub text: String }

static SYNTH_MASKS: std::sync::atomic::AtomicU64 = std::sync::atomic::AtomicU64::new(0);
fn out_synth() { SYNTH_MASKS.fetch_add(1, std::sync::atomic::Ordering::Relaxed); }

fn synth_key_mask(rng: &mut Rng) -> String {
  // bits of a full keyboard (words most significant first, as the kernel prints them)
  let base: Vec<u64> = KEY_MASKS[rng.below(2)].split_whitespace().map(|w| u64::from_str_radix(w, 16).unwrap_or(0)).collect();
  let nw = base.len();
  let mut bits: Vec<usize> = vec![];
  for (wi, w) in base.iter().enumerate() { for b in 0..64 { if w & (1u64 << b) != 0 { bits.push((nw - 1 - wi) * 64 + b); } } }
  let keep = match rng.below(4) { 0 => rng.range(0, bits.len()), 1 => rng.range(14, 28), 2 => rng.range(17, 23), _ => rng.range(0, 40) }.min(bits.len());
  let mut chosen = rng.sample(&bits, keep);
  if rng.chance(1, 2) {
    for _ in 0..rng.range(1, 3) {
      let w = rng.below(nw.max(2));
      let b = match rng.below(4) { 0 => 63, 1 => 0, _ => rng.below(64) };
      let pos = w * 64 + b;
      if !chosen.contains(&pos) { chosen.push(pos); }
    }
  }
  let top = chosen.iter().map(|p| p / 64).max().unwrap_or(0);
  let mut words = vec![0u64; top + 1];
  for p in &chosen { words[p / 64] |= 1u64 << (p % 64); }
  words.iter().rev().map(|w| format!("{:x}", w)).collect::<Vec<_>>().join(" ")
}

pub fn gen_text(rng: &mut Rng, corpus: &[Entry]) -> GenText {
  let n = rng.range(1, 9);
  let mut entries: Vec<Entry> = vec![];
  let mut next_input = 2 + rng.below(5) as u32;
  let mut next_event = rng.below(4) as u32;
  for _ in 0..n {
    let mut e = rng.pick(corpus).clone();
    // unique sysfs leaf and event number inside one text
    if let Some(s) = e.sysfs() {
      let base = match s.rfind("/input") { Some(i) => s[..i].to_string(), None => s.clone() };
      let base = match rng.below(12) {
        0 => "/devices/virtual/input".to_string(),
        1 => "/devices/virtual/inputx".to_string(),
        2 => "/devices/virtual/misc/uhid/0005:05AC:0239.000B/input".to_string(),
        _ => if base.ends_with("/input") { base } else { format!("{}/input", base) }
      };
      let base = if base.ends_with("/input") || base.ends_with("/inputx") { base } else { format!("{}/input", base) };
      e.set("S: Sysfs=", &format!("{}/input{}", base, next_input));
    }
    next_input += 1 + rng.below(3) as u32;
    if let Some(h) = e.field("H: Handlers=") {
      let words: Vec<String> = h.split_whitespace().map(|w| if w.starts_with("event") { format!("event{}", next_event) } else { w.to_string() }).collect();
      e.set("H: Handlers=", &format!("{} ", words.join(" ")));
    }
    next_event += 1;
    if rng.chance(1, 3) { let nm = *rng.pick(&NAMES); e.set("N: Name=", &format!("\"{}\"", nm)); }
    if rng.chance(1, 4) { let km = *rng.pick(&KEY_MASKS); e.set("B: KEY=", km); }
    // a synthesised key bitmap: a random subset of the keys of a real keyboard (so every count of keys occurs, the
    // counts around any threshold of the heuristic included), plus now and then a few keys anywhere in the bitmap,
    // the top bit of a word included
    else if rng.chance(1, 5) { let km = synth_key_mask(rng); e.set("B: KEY=", &km); out_synth(); }
    if rng.chance(1, 4) { let em = *rng.pick(&EV_MASKS); e.set("B: EV=", em); }
    // missing fields: anything but the I: header
    for f in ["N: Name=", "S: Sysfs=", "B: EV=", "B: KEY=", "P: Phys=", "U: Uniq=", "H: Handlers=", "B: PROP=", "B: MSC=", "B: LED="] {
      let p = if f == "N: Name=" || f == "B: EV=" || f == "S: Sysfs=" { 7 } else { 14 };
      if rng.chance(1, p) { e.drop_field(f); }
    }
    entries.push(e);
  }
  let mut text = String::new();
  for (i, e) in entries.iter().enumerate() {
    text.push_str(&e.text());
    if i + 1 < entries.len() || rng.chance(1, 2) { text.push('\n'); }
  }
  GenText { entries, text }
}

fn replay_obj(text: &str, excludes: &[String]) -> Value {
  json!({ "engine": "devices", "property": "C16", "proc_text": text, "excludes": excludes })
}
fn replay_obj_names(names: &[String], excludes: &[String]) -> Value {
  json!({ "engine": "devices", "property": "C16", "synthetic_names": names, "excludes": excludes })
}
fn synth_entries(names: &[String]) -> Vec<Option<(String, String, bool)>> {
  names.iter().enumerate().map(|(j, n)| Some((format!("/devices/synthetic/input/input{}", j), n.clone(), true))).collect()
}

// hook-level oracles on one text. Returns the isolated classification: (sysfs, name, is_keyboard) per entry that yields a device
fn check_hook_level(g: &GenText, out: &mut ShardOut) -> Vec<Option<(String, String, bool)>> {
  out.count("texts");
  out.add("entries", g.entries.len() as u64);
  let kb_ctx = extract_keyboards(&g.text);
  let dev_ctx = extract_input_devices(&g.text);
  let mut kb_iso: Vec<(String, String)> = vec![];
  let mut dev_iso: Vec<(String, String, bool)> = vec![];
  let mut per_entry: Vec<Option<(String, String, bool)>> = vec![];
  let mut prev_missing = false;
  for e in &g.entries {
    let t = e.text();
    let k = extract_keyboards(&t);
    let d = extract_input_devices(&t);
    if k.len() > 1 || d.len() > 1 { out.count("harness_entry_yields_two_devices"); }
    let missing = e.field("N: Name=").is_none() || e.field("B: EV=").is_none() || e.field("S: Sysfs=").is_none();
    if !k.is_empty() { out.count("entries_keyboard_like"); if prev_missing { out.count("keyboard_entries_right_after_an_entry_with_a_missing_field"); } if missing { out.count("keyboard_entries_with_a_missing_field"); } }
    else if !d.is_empty() { out.count("entries_not_keyboard_like"); }
    else { out.count("entries_yielding_no_device"); }
    prev_missing = missing;
    per_entry.push(d.get(0).cloned());
    kb_iso.extend(k);
    dev_iso.extend(d);
  }
  if kb_ctx != kb_iso {
    out.violation(Violation { property: "C16".to_string(), clause: "independence".to_string(), signature: "C16:all-keyboards-extractor-depends-on-neighbours".to_string(),
      message: format!("--all-keyboards extractor: in context {:?}, entry by entry {:?}", kb_ctx, kb_iso), replay: replay_obj(&g.text, &[]) });
  }
  if dev_ctx != dev_iso {
    out.violation(Violation { property: "C16".to_string(), clause: "independence".to_string(), signature: "C16:dev-file-extractor-depends-on-neighbours".to_string(),
      message: format!("--dev-file extractor: in context {:?}, entry by entry {:?}", dev_ctx, dev_iso), replay: replay_obj(&g.text, &[]) });
  }
  // the same three oracles with the extractors' verbose flag on (what the installed systemd unit uses), on one text in four
  if hash_str(&g.text) % 4 == 0 {
    out.count("texts_also_checked_verbose");
    let kb_ctx_v = extract_keyboards_with(&g.text, true);
    let dev_ctx_v = extract_input_devices_with(&g.text, true);
    let mut kb_iso_v: Vec<(String, String)> = vec![];
    let mut dev_iso_v: Vec<(String, String, bool)> = vec![];
    for e in &g.entries { let t = e.text(); kb_iso_v.extend(extract_keyboards_with(&t, true)); dev_iso_v.extend(extract_input_devices_with(&t, true)); }
    if kb_ctx_v != kb_iso_v {
      out.violation(Violation { property: "C16".to_string(), clause: "independence".to_string(), signature: "C16:all-keyboards-extractor-depends-on-neighbours:verbose".to_string(),
        message: format!("--all-keyboards extractor (verbose): in context {:?}, entry by entry {:?}", kb_ctx_v, kb_iso_v), replay: replay_obj(&g.text, &[]) });
    }
    if dev_ctx_v != dev_iso_v {
      out.violation(Violation { property: "C16".to_string(), clause: "independence".to_string(), signature: "C16:dev-file-extractor-depends-on-neighbours:verbose".to_string(),
        message: format!("--dev-file extractor (verbose): in context {:?}, entry by entry {:?}", dev_ctx_v, dev_iso_v), replay: replay_obj(&g.text, &[]) });
    }
    let from_dev_v: Vec<(String, String)> = dev_ctx_v.iter().filter(|d| d.2).map(|d| (d.0.clone(), d.1.clone())).collect();
    if kb_ctx_v != from_dev_v {
      out.violation(Violation { property: "C16".to_string(), clause: "agreement".to_string(), signature: "C16:the-two-extractors-disagree:verbose".to_string(),
        message: format!("verbose: --all-keyboards extractor finds {:?}, the --dev-file extractor's keyboards are {:?}", kb_ctx_v, from_dev_v), replay: replay_obj(&g.text, &[]) });
    }
  }
  let from_dev: Vec<(String, String)> = dev_ctx.iter().filter(|d| d.2).map(|d| (d.0.clone(), d.1.clone())).collect();
  if kb_ctx != from_dev {
    out.violation(Violation { property: "C16".to_string(), clause: "agreement".to_string(), signature: "C16:the-two-extractors-disagree".to_string(),
      message: format!("--all-keyboards extractor finds {:?}, the --dev-file extractor's keyboards are {:?}", kb_ctx, from_dev), replay: replay_obj(&g.text, &[]) });
  }
  per_entry
}

const PATTERNS: [&str; 16] = ["*", "*Mouse*", "*keyboard", "AT Translated Set 2 keyboard", "?", "*Keyboard*", "cros_ec", "a\\*b", "a*b?c", "*\"*", "Dell*", "* *", "????? Button", "x*", "*ü*", "Razer Razer Huntsman Mini"];

fn gen_excludes(rng: &mut Rng, names: &[String]) -> Vec<String> {
  let n = match rng.below(6) { 0 | 1 => 0, 2 | 3 => 1, 4 => 2, _ => 3 };
  let mut v = vec![];
  for _ in 0..n {
    let p = match rng.below(6) {
      0 | 1 => rng.pick(&PATTERNS).to_string(),
      2 => if names.is_empty() { "*".to_string() } else { rng.pick(names).clone() },                       // exact name
      3 => if names.is_empty() { "?".to_string() } else { let nm: Vec<char> = rng.pick(names).chars().collect(); if nm.len() < 3 { "*".to_string() } else { let a = rng.below(nm.len()); format!("*{}*", nm[a..std::cmp::min(nm.len(), a + 4)].iter().collect::<String>()) } },
      4 => if names.is_empty() { "??".to_string() } else { rng.pick(names).chars().map(|c| if rng.chance(1, 5) { '?' } else { c }).collect() },
      _ => format!("{}*", (b'A' + rng.below(26) as u8) as char)
    };
    if !p.is_empty() && !p.starts_with('-') && !p.contains('\0') { v.push(p); }
  }
  v
}

// a name that matches the pattern: '*' becomes a random short string, '?' a random character
fn instantiate(pat: &str, rng: &mut Rng) -> String {
  let fill: Vec<char> = "abK10 x-_2é".chars().collect();
  let mut s = String::new();
  for c in pat.chars() {
    match c { '*' => { for _ in 0..rng.below(4) { s.push(*rng.pick(&fill)); } }, '?' => s.push(*rng.pick(&fill)), c => s.push(c) }
  }
  s
}

// pattern lists whose members are related: one pattern is a generalisation / specialisation of another
fn related_patterns(rng: &mut Rng, names: &[String]) -> Vec<String> {
  let base: String = if !names.is_empty() && rng.chance(2, 3) { rng.pick(names).clone() } else { rng.pick(&NAMES).to_string() };
  let cs: Vec<char> = base.chars().collect();
  if cs.len() < 4 { return vec![base]; }
  let mut pats = vec![];
  for _ in 0..rng.range(2, 3) {
    let mut p: Vec<char> = cs.clone();
    for _ in 0..rng.range(1, 3) {
      if p.is_empty() { break; }
      let i = rng.below(p.len());
      match rng.below(3) { 0 => p[i] = '?', 1 => { let j = std::cmp::min(p.len(), i + rng.range(1, 4)); p.splice(i..j, std::iter::once('*')); }, _ => { p.truncate(i + 1); p.push('*'); } }
    }
    let s: String = p.into_iter().collect();
    if !s.is_empty() && !s.starts_with('-') { pats.push(s); }
  }
  pats
}

fn check_exclusion_hooks(per_entry: &[Option<(String, String, bool)>], excludes: &[String], text: &str, out: &mut ShardOut) {
  let pats: Vec<&str> = excludes.iter().map(|s| s.as_str()).collect();
  let kbs: Vec<ExtractedKeyboard> = per_entry.iter().flatten().map(|d| ExtractedKeyboard { dev_path: PathBuf::from(&d.0), name: d.1.clone() }).collect();
  let devs: Vec<ExtractedInputDevice> = per_entry.iter().flatten().map(|d| ExtractedInputDevice { dev_path: PathBuf::from(&d.0), name: d.1.clone(), is_keyboard: d.2 }).collect();
  let want: Vec<bool> = per_entry.iter().flatten().map(|d| excludes.iter().any(|p| glob_match(p, &d.1))).collect();
  let got1: Vec<bool> = flag_excluded_keyboards(kbs, &pats).into_iter().map(|x| x.1).collect();
  let got2: Vec<bool> = flag_excluded_devices(devs, &pats).into_iter().map(|x| x.1).collect();
  out.count("exclusion_hook_checks");
  let n_match = want.iter().filter(|b| **b).count();
  out.count(match n_match { 0 => "exclude_sets_matching_0_devices", 1 => "exclude_sets_matching_1_device", _ => "exclude_sets_matching_many_devices" });
  if got1 != want || got2 != want {
    out.violation(Violation { property: "C16".to_string(), clause: "exclusion".to_string(), signature: "C16:exclusion-differs-from-glob-on-name".to_string(),
      message: format!("patterns {:?} on names {:?}: --all-keyboards route flags {:?}, --dev-file route flags {:?}, a glob match on the names gives {:?}", excludes,
        per_entry.iter().flatten().map(|d| d.1.clone()).collect::<Vec<_>>(), got1, got2, want),
      replay: if text.is_empty() { replay_obj_names(&per_entry.iter().flatten().map(|d| d.1.clone()).collect::<Vec<_>>(), excludes) } else { replay_obj(text, excludes) } });
  }
}

// ---------- end to end ----------

struct Ns { proc_src: String }

fn cstr(s: &str) -> CString { CString::new(s).unwrap() }

fn enter_namespace() -> Result<Ns, String> {
  unsafe {
    if libc::unshare(libc::CLONE_NEWNS) != 0 { return Err(format!("unshare(CLONE_NEWNS): {}", std::io::Error::last_os_error())); }
    if libc::mount(std::ptr::null(), cstr("/").as_ptr(), std::ptr::null(), libc::MS_REC | libc::MS_PRIVATE, std::ptr::null()) != 0 { return Err("making mounts private failed".to_string()); }
    let tmpfs = cstr("tmpfs");
    for tgt in ["/dev", "/sys/devices"] {
      if libc::mount(tmpfs.as_ptr(), cstr(tgt).as_ptr(), tmpfs.as_ptr(), 0, cstr("size=64m").as_ptr() as *const libc::c_void) != 0 {
        return Err(format!("mounting a tmpfs on {}: {}", tgt, std::io::Error::last_os_error()));
      }
    }
  }
  std::fs::create_dir_all("/dev/input").map_err(|e| format!("mkdir /dev/input: {}", e))?;
  let proc_src = "/dev/tmverif-proc-bus-input-devices".to_string();
  std::fs::write(&proc_src, "").map_err(|e| format!("{}", e))?;
  unsafe {
    if libc::mount(cstr(&proc_src).as_ptr(), cstr("/proc/bus/input/devices").as_ptr(), std::ptr::null(), libc::MS_BIND, std::ptr::null()) != 0 {
      return Err(format!("bind-mounting over /proc/bus/input/devices: {}", std::io::Error::last_os_error()));
    }
  }
  Ok(Ns { proc_src })
}

fn populate(ns: &Ns, g: &GenText) -> Result<(), String> {
  // rewrite in place: the bind mount refers to the inode
  use std::io::Write;
  let mut f = std::fs::OpenOptions::new().write(true).truncate(true).open(&ns.proc_src).map_err(|e| format!("{}", e))?;
  f.write_all(g.text.as_bytes()).map_err(|e| format!("{}", e))?;
  drop(f);
  if std::fs::read_to_string("/proc/bus/input/devices").map_err(|e| format!("{}", e))? != g.text { return Err("the fabricated device list is not what /proc/bus/input/devices shows".to_string()); }
  if let Ok(rd) = std::fs::read_dir("/sys/devices") { for e in rd.flatten() { let _ = std::fs::remove_dir_all(e.path()); } }
  if let Ok(rd) = std::fs::read_dir("/dev/input") { for e in rd.flatten() { if e.path().is_dir() && !e.path().is_symlink() { let _ = std::fs::remove_dir_all(e.path()); } else { let _ = std::fs::remove_file(e.path()); } } }
  let _ = std::fs::create_dir_all("/dev/input/by-id");
  for e in &g.entries {
    if let (Some(s), Some(n)) = (e.sysfs(), e.event_number()) {
      let d = format!("/sys{}/event{}", s, n);
      std::fs::create_dir_all(&d).map_err(|e| format!("{}: {}", d, e))?;
      std::fs::write(format!("{}/uevent", d), format!("MAJOR=13\nMINOR={}\nDEVNAME=input/event{}\n", 64 + n, n)).map_err(|e| format!("{}", e))?;
      // a sibling that is not an event node, as on a real system
      let _ = std::fs::create_dir_all(format!("/sys{}/capabilities", s));
      std::fs::write(format!("/dev/input/event{}", n), b"").map_err(|e| format!("{}", e))?;
      // the udev-style alias of the same node
      let _ = std::os::unix::fs::symlink(format!("../event{}", n), format!("/dev/input/by-id/usb-device-{}-event-kbd", n));
    }
    else if let Some(s) = e.sysfs() { let _ = std::fs::create_dir_all(format!("/sys{}", s)); }
  }
  Ok(())
}

fn run_bin(bin: &str, args: &[String]) -> Result<(String, String, Option<i32>), String> {
  let o = Command::new(bin).args(args).stdin(Stdio::piped()).stdout(Stdio::piped()).stderr(Stdio::piped()).output().map_err(|e| format!("cannot run {}: {}", bin, e))?;
  Ok((String::from_utf8_lossy(&o.stdout).to_string(), String::from_utf8_lossy(&o.stderr).to_string(), o.status.code()))
}

// the device paths listed after "Remapping N devices."
fn selected_from_verbose(stderr: &str) -> Option<Vec<String>> {
  let mut lines = stderr.lines();
  let mut res = vec![];
  let mut seen = false;
  while let Some(l) = lines.next() {
    if l.starts_with("Remapping ") && l.ends_with(" devices.") { seen = true; continue; }
    if seen {
      if let Some(p) = l.strip_prefix(" * ") { res.push(p.trim().to_string()); } else { break; }
    }
  }
  if seen { Some(res) } else { None }
}

// --all-keyboards prints the discovered keyboards, flagged "(excluded)" where a pattern matched; the loop is then
// started for the unflagged ones (opening the first of them fails on our plain files, which ends the run)
fn selected_from_keyboard_list(stderr: &str) -> Option<Vec<String>> {
  let mut res = vec![];
  let mut seen = false;
  for l in stderr.lines() {
    if l == "Got the list of keyboards:" { seen = true; continue; }
    if seen {
      if let Some(p) = l.strip_prefix(" * ") {
        let p = p.trim();
        if p.ends_with(" (excluded)") { continue; }
        res.push(p.trim_matches('"').to_string());
      } else { break; }
    }
  }
  if seen { Some(res) } else { None }
}

fn check_end_to_end(ns: &Ns, bin: &str, g: &GenText, per_entry: &[Option<(String, String, bool)>], excludes: &[String], out: &mut ShardOut) {
  if let Err(e) = populate(ns, g) { out.count("e2e_setup_errors"); out.notes.insert("e2e_setup_error".to_string(), json!(e)); return; }
  // expected selection from each entry's own classification
  let mut expected: Vec<String> = vec![];
  let mut all_nodes: Vec<(String, bool)> = vec![];
  for (e, d) in g.entries.iter().zip(per_entry.iter()) {
    if let (Some((sysfs, name, is_kb)), Some(n)) = (d, e.event_number()) {
      let node = format!("/dev/input/event{}", n);
      let virt = sysfs.starts_with("/devices/virtual/input/");
      let excl = excludes.iter().any(|p| glob_match(p, name));
      let sel = *is_kb && !virt && !excl;
      if *is_kb && virt { out.count("e2e_virtual_keyboard_entries"); }
      if *is_kb && !virt && excl { out.count("e2e_excluded_keyboard_entries"); }
      if *is_kb && sysfs.starts_with("/devices/virtual/") && !virt { out.count("e2e_keyboards_under_virtual_but_not_input_tree"); }
      if sel { expected.push(node.clone()); out.count("e2e_selected_devices"); }
      all_nodes.push((node, sel));
    }
  }
  let mut base: Vec<String> = vec!["remap".into(), "--default-layout".into(), "caps-for-movement".into(), "--verbose".into()];
  for p in excludes { base.push("--exclude".into()); base.push(p.clone()); }
  // route 1: --all-keyboards
  let mut a1 = base.clone(); a1.push("--all-keyboards".into());
  match run_bin(bin, &a1) {
    Ok((so, se, _)) => match selected_from_keyboard_list(&se) {
      Some(sel) => {
        out.count("e2e_all_keyboards_runs");
        // the number of devices the loop is actually started for, and the first of them
        let started: Option<usize> = se.lines().find(|l| l.starts_with("Remapping ") && l.ends_with(" devices.")).and_then(|l| l["Remapping ".len()..l.len() - " devices.".len()].parse().ok());
        let first_started = selected_from_verbose(&se).and_then(|v| v.first().cloned());
        if started != Some(expected.len()) || first_started != expected.first().cloned() {
          out.violation(Violation { property: "C16".to_string(), clause: "selection".to_string(), signature: "C16:all-keyboards-starts-wrong-set".to_string(),
            message: format!("remap --all-keyboards {:?} started the loop for {:?} devices (first {:?}), expected {} ({:?})", excludes, started, first_started, expected.len(), expected), replay: replay_obj(&g.text, excludes) });
        }
        if sel != expected {
          out.violation(Violation { property: "C16".to_string(), clause: "selection".to_string(), signature: "C16:all-keyboards-selects-wrong-set".to_string(),
            message: format!("remap --all-keyboards {:?} selected {:?}, expected {:?}", excludes, sel, expected), replay: replay_obj(&g.text, excludes) });
        }
      },
      None => { out.count("e2e_unparsable_runs"); out.notes.insert("e2e_unparsable".to_string(), json!(format!("stdout {:?} stderr {:?}", so.chars().take(300).collect::<String>(), se.chars().take(300).collect::<String>()))); }
    },
    Err(e) => { out.count("e2e_setup_errors"); out.notes.insert("e2e_setup_error".to_string(), json!(e)); return; }
  }
  // route 2: each device by name with --only-if-keyboard
  for (i, (node, sel)) in all_nodes.iter().enumerate() {
    // every third device is named through its by-id symlink, another third with a doubled slash
    let n: String = node["/dev/input/event".len()..].to_string();
    let node = &match (i + g.entries.len()) % 3 { 0 => format!("/dev/input/by-id/usb-device-{}-event-kbd", n), 1 => format!("/dev/input//event{}", n), _ => node.clone() };
    if node.contains("by-id") { out.count("e2e_dev_file_runs_via_symlink"); }
    let mut a2 = base.clone(); a2.push("--only-if-keyboard".into()); a2.push("--dev-file".into()); a2.push(node.clone());
    if let Ok((_, se, _)) = run_bin(bin, &a2) {
      match selected_from_verbose(&se) {
        Some(got) => {
          out.count("e2e_dev_file_runs");
          let want: Vec<String> = if *sel { vec![node.clone()] } else { vec![] };
          if got != want {
            out.violation(Violation { property: "C16".to_string(), clause: "selection".to_string(), signature: "C16:dev-file-route-disagrees".to_string(),
              message: format!("remap --only-if-keyboard {:?} --dev-file {} selected {:?}, expected {:?} (the --all-keyboards set is {:?})", excludes, node, got, want, expected), replay: replay_obj(&g.text, excludes) });
          }
        },
        None => out.count("e2e_unparsable_runs")
      }
    }
  }
  // list_keyboards (no exclusion there): every non-virtual keyboard-like device, with its name
  if excludes.is_empty() {
    if let Ok((so, _, _)) = run_bin(bin, &["list_keyboards".to_string()]) {
      out.count("e2e_list_keyboards_runs");
      let got: Vec<String> = so.lines().filter_map(|l| l.rfind(": ").map(|i| l[i + 2..].to_string())).collect();
      if got != expected {
        out.violation(Violation { property: "C16".to_string(), clause: "selection".to_string(), signature: "C16:list-keyboards-differs".to_string(),
          message: format!("list_keyboards printed {:?}, expected {:?}", got, expected), replay: replay_obj(&g.text, excludes) });
      }
    }
  }
}

pub fn run(opts: &Opts) -> i32 {
  let mut out = ShardOut::new();
  let mut rng = Rng::new(opts.shard_seed() ^ 0xc16);
  let thorough = opts.thorough();
  // the extractors print their reasoning when verbose: this process's own standard output goes to /dev/null
  // (results are written to the out= file; the real binary's output is captured through pipes)
  if !opts.out.is_empty() {
    unsafe { let fd = libc::open(b"/dev/null\0".as_ptr() as *const libc::c_char, libc::O_WRONLY); if fd >= 0 { libc::dup2(fd, 1); libc::close(fd); } }
  }
  let corpus = load_corpus();
  if corpus.len() < 10 { out.notes.insert("harness_error".to_string(), json!("device entry corpus missing")); out.write(opts); return 3; }
  out.add("corpus_entries", corpus.len() as u64);
  // matcher self-test
  if !(glob_match("*Mouse*", "Dell Mouse") && glob_match("a?c", "abc") && !glob_match("a?c", "ac") && glob_match("*", "") && !glob_match("abc", "abcd") && glob_match("a*b*c", "a--b--c")) {
    out.notes.insert("harness_error".to_string(), json!("glob matcher self-test failed")); out.write(opts); return 3;
  }
  let bin = opts.get("real_bin").cloned().unwrap_or_default();
  let ns = if !bin.is_empty() && std::path::Path::new(&bin).exists() {
    match enter_namespace() { Ok(ns) => { out.count("ran_in_private_namespace"); Some(ns) }, Err(e) => { out.notes.insert("namespace_unavailable".to_string(), json!(e)); None } }
  } else { out.notes.insert("namespace_unavailable".to_string(), json!("real binary not built")); None };

  // every corpus entry on its own and the whole corpus in its recorded order
  {
    let g = GenText { entries: corpus.clone(), text: corpus.iter().map(|e| e.text()).collect::<Vec<_>>().join("\n") };
    check_hook_level(&g, &mut out);
  }
  // names and patterns that coincide with words the implementation uses itself (dictionary mined from its sources)
  {
    let dict = crate::dict::all();
    for (i, t) in dict.iter().enumerate() {
      if (i as u64) % opts.nshards != opts.shard || t.starts_with('-') { continue; }
      let other = rng.pick(dict).clone();
      let sn = vec![t.clone(), format!("ACME {} Keypad", t), other.clone(), "plain".to_string()];
      out.count("dictionary_tokens");
      out.nontrivial(hash64(&(t, 16u8)));
      check_exclusion_hooks(&synth_entries(&sn), &[t.clone()], "", &mut out);
      check_exclusion_hooks(&synth_entries(&sn), &[format!("*{}*", t)], "", &mut out);
      if !other.starts_with('-') { check_exclusion_hooks(&synth_entries(&sn), &[other.clone(), t.clone()], "", &mut out); }
    }
  }
  // every ordered pair of small patterns over {a, b, *, ?} (up to 4 characters, thorough: 5) against every name over
  // {a, b} of up to 5 (6) characters: whatever a list of patterns does beyond "any pattern matches" - merging,
  // de-duplicating, ordering, short-cutting - shows on some pair here if it shows on small patterns at all
  {
    let plen = if thorough { 5 } else { 4 };
    let nlen = if thorough { 6 } else { 5 };
    let mut pats: Vec<String> = vec![];
    let pal = ['a', 'b', '*', '?'];
    for l in 1..=plen { for i in 0..(4u32.pow(l)) { let mut x = i; let mut p = String::new(); for _ in 0..l { p.push(pal[(x % 4) as usize]); x /= 4; } pats.push(p); } }
    let mut names: Vec<String> = vec![];
    for l in 1..=nlen { for i in 0..(2u32.pow(l)) { let mut x = i; let mut p = String::new(); for _ in 0..l { p.push(if x % 2 == 0 { 'a' } else { 'b' }); x /= 2; } names.push(p); } }
    let synth = synth_entries(&names);
    let total = (pats.len() * pats.len()) as u64;
    let stride = if opts.num("aux", 0) == 1 { 997 } else { 1 };
    let mut i = opts.shard;
    while i < total {
      let (p1, p2) = (&pats[(i / pats.len() as u64) as usize], &pats[(i % pats.len() as u64) as usize]);
      out.count("small_pattern_pairs");
      check_exclusion_hooks(&synth, &[p1.clone(), p2.clone()], "", &mut out);
      if out.n_violations() > 20 { break; }
      i += opts.nshards * stride;
    }
    out.nontrivial(hash64(&(opts.shard, 0x5a11u32)));
  }
  let n = opts.num("texts", if thorough { 1_000_000 } else { 100_000 });
  let e2e_every = opts.num("e2e_every", if thorough { 200 } else { 250 });
  for i in 0..n {
    let g = gen_text(&mut rng, &corpus);
    let per_entry = check_hook_level(&g, &mut out);
    out.nontrivial(hash_str(&g.text));
    let names: Vec<String> = per_entry.iter().flatten().map(|d| d.1.clone()).collect();
    let excludes = gen_excludes(&mut rng, &names);
    check_exclusion_hooks(&per_entry, &excludes, &g.text, &mut out);
    // related patterns against names instantiated from each of them (a name that only one pattern of the list matches
    // shows whether every pattern of the list is applied)
    if i % 3 == 0 {
      let pats = related_patterns(&mut rng, &names);
      let mut sn: Vec<String> = vec![];
      for p in pats.iter() { for _ in 0..3 { sn.push(instantiate(p, &mut rng)); } }
      for n in names.iter().take(3) { sn.push(n.clone()); }
      out.count("related_pattern_lists");
      check_exclusion_hooks(&synth_entries(&sn), &pats, "", &mut out);
    }
    if let Some(ns) = &ns {
      if i % e2e_every == 0 {
        check_end_to_end(ns, &bin, &g, &per_entry, &excludes, &mut out);
        out.count("e2e_texts");
        if out.wants_sample() && per_entry.iter().flatten().any(|d| d.2) {
          out.sample(json!({ "proc_bus_input_devices": g.text, "excludes": excludes,
            "own_entry_classification": per_entry.iter().flatten().map(|d| json!({ "sysfs": d.0, "name": d.1, "keyboard_like": d.2 })).collect::<Vec<_>>() }));
        }
      }
    }
  }
  out.add("synthesised_key_bitmaps", SYNTH_MASKS.load(std::sync::atomic::Ordering::Relaxed));
  out.write(opts);
  if out.n_violations() > 0 { 1 } else { 0 }
}

pub fn replay(rep: &Value, out: &mut ShardOut) -> bool {
  let excludes: Vec<String> = rep.get("excludes").and_then(|e| e.as_array()).map(|a| a.iter().filter_map(|x| x.as_str().map(|s| s.to_string())).collect()).unwrap_or(vec![]);
  if let Some(sn) = rep.get("synthetic_names").and_then(|e| e.as_array()) {
    let names: Vec<String> = sn.iter().filter_map(|x| x.as_str().map(|s| s.to_string())).collect();
    check_exclusion_hooks(&synth_entries(&names), &excludes, "", out);
    return true;
  }
  let text = match rep.get("proc_text").and_then(|t| t.as_str()) { Some(t) => t.to_string(), None => return false };
  let entries: Vec<Entry> = {
    let mut v: Vec<Entry> = vec![];
    for l in text.lines() {
      if l.starts_with("I:") { v.push(Entry { lines: vec![] }); }
      if l.is_empty() { continue; }
      if let Some(e) = v.last_mut() { e.lines.push(l.to_string()); }
    }
    v
  };
  let g = GenText { entries, text };
  let per_entry = check_hook_level(&g, out);
  check_exclusion_hooks(&per_entry, &excludes, &g.text, out);
  let bin = format!("{}/.target-repo/release/totalmapper", verif_root());
  if std::path::Path::new(&bin).exists() {
    if let Ok(ns) = enter_namespace() { check_end_to_end(&ns, &bin, &g, &per_entry, &excludes, out); }
  }
  true
}
