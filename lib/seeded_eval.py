#!/usr/bin/env python3
"""Confirm a seeded change and run checks against it.

  seeded_eval.py confirm <dir>            # in a scratch worktree: 49 tests pass with the patch, demo fails with / passes without
  seeded_eval.py run <dir> [ID ...]       # apply <dir>/patch.diff to /repo, run ./check ID --tier quick for each ID, undo
  seeded_eval.py matrix                   # run every kept change under /verif/seeded against its own property's quick check

<dir> holds patch.diff, demo.diff, meta.json. Nothing is ever committed to /repo; the patch is undone straight afterwards.
"""
import json, os, re, subprocess, sys, time, shutil

ROOT = os.path.dirname(os.path.dirname(os.path.abspath(__file__)))
REPO = "/repo"
SCRATCH = "/tmp/wt-confirm"


def sh(cmd, cwd=None, env=None, timeout=3600):
    r = subprocess.run(cmd, cwd=cwd, env=env, stdout=subprocess.PIPE, stderr=subprocess.STDOUT, text=True, shell=isinstance(cmd, str), timeout=timeout)
    return r.returncode, r.stdout


def confirm(d):
    d = os.path.abspath(d)
    meta = json.load(open(os.path.join(d, "meta.json")))
    if not os.path.exists(SCRATCH):
        sh(["git", "-C", REPO, "worktree", "add", "-q", SCRATCH, "HEAD"])
    sh(["git", "checkout", "-q", "--detach", subprocess.run(["git", "-C", REPO, "rev-parse", "HEAD"], stdout=subprocess.PIPE, text=True).stdout.strip()], cwd=SCRATCH)
    sh("git checkout -- . && git clean -fdq -e target", cwd=SCRATCH)
    env = dict(os.environ, CARGO_NET_OFFLINE="true")
    res = {"dir": d}
    test = meta.get("demo_test_name", "")
    # (1) demo alone passes
    rc, out = sh(["git", "apply", os.path.join(d, "demo.diff")], cwd=SCRATCH)
    res["demo_applies"] = rc == 0
    rc, out = sh(["cargo", "test", "--offline", test], cwd=SCRATCH, env=env)
    m = re.search(r"test result: (\w+)\. (\d+) passed; (\d+) failed", out)
    res["demo_alone"] = m.group(0) if m else out[-300:]
    res["demo_alone_passes"] = bool(m and m.group(1) == "ok" and int(m.group(2)) >= 1)
    sh("git checkout -- . && git clean -fdq -e target", cwd=SCRATCH)
    # (2) patch alone: the 49 tests
    rc, out = sh(["git", "apply", os.path.join(d, "patch.diff")], cwd=SCRATCH)
    res["patch_applies"] = rc == 0
    rc, out = sh(["cargo", "test", "--offline"], cwd=SCRATCH, env=env)
    m = re.search(r"test result: (\w+)\. (\d+) passed; (\d+) failed", out)
    res["patch_alone"] = m.group(0) if m else out[-300:]
    res["patch_passes_49"] = bool(m and m.group(1) == "ok" and int(m.group(2)) == 49)
    # (3) patch + demo: the demo fails
    rc, out = sh(["git", "apply", os.path.join(d, "demo.diff")], cwd=SCRATCH)
    rc, out = sh(["cargo", "test", "--offline", test], cwd=SCRATCH, env=env)
    m = re.search(r"test result: (\w+)\. (\d+) passed; (\d+) failed", out)
    res["patch_plus_demo"] = m.group(0) if m else out[-300:]
    res["demo_fails_with_patch"] = bool(m and int(m.group(3)) >= 1)
    sh("git checkout -- . && git clean -fdq -e target", cwd=SCRATCH)
    res["confirmed"] = all(res.get(k) for k in ("demo_applies", "demo_alone_passes", "patch_applies", "patch_passes_49", "demo_fails_with_patch"))
    return res


def run(d, ids, tier="quick", seed=None):
    d = os.path.abspath(d)
    rc, out = sh(["git", "-C", REPO, "status", "--porcelain"])
    if out.strip():
        print("refusing: /repo has uncommitted changes:\n" + out)
        sys.exit(2)
    rc, out = sh(["git", "-C", REPO, "apply", os.path.join(d, "patch.diff")])
    if rc != 0:
        print("patch does not apply to /repo: " + out)
        return {}
    results = {}
    try:
        for pid in ids:
            env = dict(os.environ)
            if seed is not None:
                env["VERIF_SEED"] = str(seed)
            t0 = time.time()
            rc, out = sh([os.path.join(ROOT, "check"), pid, "--tier", tier], cwd=ROOT, env=env)
            lines = [l for l in out.splitlines() if l.startswith(("VIOLATION", "OK", "INCONCLUSIVE", "violation:"))]
            results[pid] = {"exit": rc, "wall_s": round(time.time() - t0, 1), "lines": [l[:400] for l in lines[:6]]}
    finally:
        sh(["git", "-C", REPO, "checkout", "--", "."])
    return results


def main():
    cmd = sys.argv[1]
    if cmd == "confirm":
        print(json.dumps(confirm(sys.argv[2]), indent=1))
    elif cmd == "run":
        d = sys.argv[2]
        ids = sys.argv[3:] or [json.load(open(os.path.join(d, "meta.json")))["property"]]
        print(json.dumps(run(d, ids), indent=1))
    elif cmd == "matrix":
        base = os.path.join(ROOT, "seeded")
        rows = {}
        for name in sorted(os.listdir(base)):
            d = os.path.join(base, name)
            if not os.path.exists(os.path.join(d, "meta.json")):
                continue
            meta = json.load(open(os.path.join(d, "meta.json")))
            ids = sys.argv[2:] or [meta["property"]]
            r = run(d, ids)
            rows[name] = {pid: v["exit"] for pid, v in r.items()}
            print(name, rows[name], flush=True)
        json.dump(rows, open(os.path.join(base, "matrix.json"), "w"), indent=1)


if __name__ == "__main__":
    main()
