#!/usr/bin/env python3
# Regenerates /verif/MANIFEST.json from lib/props.py (run after editing the table).
import json, os, sys, subprocess
ROOT = os.path.dirname(os.path.dirname(os.path.abspath(__file__)))
sys.path.insert(0, os.path.join(ROOT, "lib"))
from props import PROPS, NOT_APPLICABLE, ENGINES

hooks = subprocess.run(["git", "-C", "/repo", "log", "--format=%H %s"], stdout=subprocess.PIPE, text=True).stdout.splitlines()
hook_commits = [l.split()[0] for l in hooks if " verif hook:" in l]

checks = []
for pid in sorted(PROPS):
    s = PROPS[pid]
    checks.append({
        "property_id": pid,
        "quick_cmd": "./check %s --tier quick" % pid,
        "thorough_cmd": "./check %s --tier thorough" % pid,
        "evidence_file": "/verif/evidence/%s.json" % pid,
        "replay_cmd_template": "./check %s --replay {path}" % pid,
        "engine": s["engine"],
        "level_claimed": {"category": s["level"], "text": s["level_text"], "design_ref": s["design_ref"]},
        "level_note": s["level_note"],
        "technique": s["technique"],
    })
m = {
    "version": 1,
    "setup_cmd": "./check --setup",
    "hooks": {
        "guard": "ellbur_totalmapper_verif",
        "enable": "RUSTFLAGS=\"--cfg ellbur_totalmapper_verif\" (set by ./check when it builds /verif/harness, which compiles /repo/src/*.rs via #[path])",
        "baseline_off_cmd": "cd /repo && cargo test --workspace --no-fail-fast --offline",
        "source_commits": list(reversed(hook_commits)),
        "add_only": True,
    },
    "engines": ENGINES,
    "checks": checks,
    "notes": "Runtime monitoring only: every check runs the real code of /repo (compiled from its working tree into /verif/harness) under seeded workloads with monitors attached; exit 0 held / 1 VIOLATION / 2 INCONCLUSIVE. Known findings: /verif/known_findings.json. See DESIGN.md.",
    "not_applicable": NOT_APPLICABLE,
}
json.dump(m, open(os.path.join(ROOT, "MANIFEST.json"), "w"), indent=1)
print("wrote MANIFEST.json with", len(checks), "checks")
