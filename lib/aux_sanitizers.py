#!/usr/bin/env python3
"""Auxiliary, NON-DECIDING sanitizer sweep (DESIGN.md section 7 / 9).

None of the 20 properties is a memory-safety or data-race property and totalmapper is safe,
single-threaded-per-device Rust apart from a few FFI calls, so nothing here can turn a
verdict.  The sweep only shows that the real code, as driven by the monitors' workloads,
runs clean under the undefined-behaviour interpreter and under memcheck:

  * Miri (cargo +nightly miri run) on tiny `aux=1` workloads of the engines that are pure
    Rust or use only calls Miri shims: mapper, convert, systemd, load, wire (the real
    DevInputWriter/DevInputReader over a pipe).  The loop engine is not run under Miri (it
    needs the harness's own clock_gettime, which clashes with Miri's shim) and neither are
    the engines that mount file systems or spawn the real binary.
  * valgrind memcheck on the release harness for small workloads of mapper, loop, convert,
    load, wire, systemd.

  aux_sanitizers.py            -> writes /verif/aux/sanitizers.json, exit 0 always unless a tool reports an error (exit 1)
"""
import json, os, subprocess, sys, time
from concurrent.futures import ThreadPoolExecutor

ROOT = os.path.dirname(os.path.dirname(os.path.abspath(__file__)))
H = os.path.join(ROOT, "harness")
BIN = os.path.join(ROOT, ".target", "release", "tmverif")
WORK = os.path.join(ROOT, ".work", "aux")

MIRI = [
    ("mapper", ["mapper", "prop=ALL", "layouts=8", "walks=3", "corpus_walks=0", "exh_budget=0"]),
    ("convert", ["convert", "prop=C13", "aux=1", "programs=15"]),
    ("systemd", ["systemd", "prop=C17", "aux=1", "random=30"]),
    ("load", ["load", "prop=C14", "inputs=60"]),
    ("wire", ["wire", "prop=C18", "aux=1", "random=3"]),
]
VALGRIND = [
    ("mapper", ["mapper", "prop=ALL", "layouts=60", "walks=10", "corpus_walks=4", "exh_budget=300000"]),
    ("loop", ["loop", "prop=C11", "layouts=400", "schedules=10"]),
    ("loop-faults", ["loop", "prop=C20", "layouts=60", "schedules=4"]),
    ("convert", ["convert", "prop=C13", "aux=1", "programs=8000"]),
    ("load", ["load", "prop=C14", "inputs=8000"]),
    ("wire", ["wire", "prop=C18", "aux=1", "random=600", "sessions=300"]),
    ("systemd", ["systemd", "prop=C17", "aux=1", "random=20000"]),
    # the real driver over pipes (two threads, interposed read/write/epoll_wait); the scripted part is kept tiny
    ("realdrv", ["loop", "prop=C10", "layouts=5", "schedules=1", "realdrv=600"]),
    ("realdrv-tablet", ["loop", "prop=C12", "layouts=5", "schedules=1", "realdrv=400"]),
    ("realdrv-faults", ["loop", "prop=C20", "layouts=5", "schedules=1", "realdrv=12"]),
]


def run(kind, name, args):
    os.makedirs(WORK, exist_ok=True)
    out = os.path.join(WORK, "%s-%s.json" % (kind, name))
    env = dict(os.environ, CARGO_NET_OFFLINE="true", VERIF_ROOT=ROOT)
    t0 = time.time()
    if kind == "miri":
        env["MIRIFLAGS"] = "-Zmiri-disable-isolation"
        env["RUSTFLAGS"] = "--cfg ellbur_totalmapper_verif"
        env["CARGO_TARGET_DIR"] = os.path.join(ROOT, ".target-miri")
        cmd = ["cargo", "+nightly", "miri", "run", "--offline", "--"] + args + ["out=" + out]
        r = subprocess.run(cmd, cwd=H, env=env, stdout=subprocess.PIPE, stderr=subprocess.STDOUT, text=True, timeout=3600)
        bad = [l for l in r.stdout.splitlines() if l.startswith("error") or "Undefined Behavior" in l]
    else:
        cmd = ["valgrind", "--error-exitcode=97", "--leak-check=no", "-q", BIN] + args + ["out=" + out]
        r = subprocess.run(cmd, env=env, stdout=subprocess.PIPE, stderr=subprocess.STDOUT, text=True, timeout=3600)
        bad = [l for l in r.stdout.splitlines() if l.startswith("==") and ("Invalid" in l or "uninitialised" in l or "Mismatched" in l)]
        if r.returncode == 97 and not bad:
            bad = ["valgrind reported errors"]
    counters = {}
    if os.path.exists(out):
        try:
            d = json.load(open(out))
            counters = {k: v for k, v in list(d.get("counters", {}).items())[:8]}
        except Exception:
            pass
    return {"tool": kind, "engine": name, "args": args, "exit": r.returncode, "wall_s": round(time.time() - t0, 1),
            "reports": bad[:5], "workload_counters": counters, "ran_to_completion": bool(counters)}


def main():
    jobs = [("miri", n, a) for n, a in MIRI] + [("valgrind", n, a) for n, a in VALGRIND]
    prev = {}
    if "--only-valgrind" in sys.argv:
        # keep the Miri results of the last full run
        try:
            prev = {(r["tool"], r["engine"]): r for r in json.load(open(os.path.join(ROOT, "aux", "sanitizers.json")))["results"] if r["tool"] == "miri"}
        except Exception:
            prev = {}
        jobs = [j for j in jobs if j[0] == "valgrind"]
    # one Miri build first (the jobs share the target dir)
    with ThreadPoolExecutor(max_workers=8) as ex:
        first = run(*jobs[0])
        res = list(prev.values()) + [first] + list(ex.map(lambda j: run(*j), jobs[1:]))
    os.makedirs(os.path.join(ROOT, "aux"), exist_ok=True)
    doc = {"note": "auxiliary, non-deciding: no property depends on this sweep", "results": res,
           "clean": all(not r["reports"] and r["ran_to_completion"] for r in res)}
    json.dump(doc, open(os.path.join(ROOT, "aux", "sanitizers.json"), "w"), indent=1)
    for r in res:
        print("%-8s %-8s exit=%s %6.1fs completed=%s reports=%d" % (r["tool"], r["engine"], r["exit"], r["wall_s"], r["ran_to_completion"], len(r["reports"])))
    sys.exit(0 if doc["clean"] else 1)


if __name__ == "__main__":
    main()
