#!/usr/bin/env python3
"""summarize_runs.py <dir-or-glob-prefix>  -> markdown table of evidence files (id, tier, seed, evaluations, distinct, known hits, violations, wall)."""
import glob, json, os, sys
pat = sys.argv[1] if len(sys.argv) > 1 else os.path.join(os.path.dirname(os.path.dirname(os.path.abspath(__file__))), "evidence", "C*.json")
rows = []
for f in sorted(glob.glob(pat)):
    d = json.load(open(f)); c = d["coverage"]
    extra = []
    for k in ("exhaustive_layouts_completed", "exhaustive_transitions", "fault_runs", "ticks", "sessions", "e2e_all_keyboards_runs", "programs"):
        if k in c.get("counters", {}):
            extra.append("%s=%d" % (k, c["counters"][k]))
    rows.append("| %s | %s | %d | %d | %d | %d | %d | %.0f s | %s |" % (d["property_id"], d["tier"], d["seed"], c["evaluations"], c["distinct_nontrivial"], c.get("known_finding_hits", 0), d["violations"], d["wall_s"], ", ".join(extra[:3])))
print("| property | tier | seed | evaluations | distinct non-trivial | known-finding hits | unlisted violations | wall | more |\n|---|---|---|---|---|---|---|---|---|")
print("\n".join(rows))
