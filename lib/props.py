# Per-property table used by ./check: which engine decides the property, the level
# claimed, how evaluations are counted, the rule for "distinct non-trivial", floors.

MAPPER_ASSUME = [
    "the cfg(ellbur_totalmapper_verif) snapshot hook copies the mapper state faithfully",
    "besides the random walks, every third (quick) / second (thorough) generated layout with at most 7 / 8 trigger keys is explored exhaustively: breadth-first over every reachable (mapper state, monitor state) with at most 3 / 4 keys held, every press and release of every trigger key, of one or two output-only keys and of a foreign key, ill-formed events and release-all applied once in every state; the tiny absorbing-centric layouts of generator E with four keys held (counters exhaustive_*)",
    "histories are sampled (seeded random walks with coverage-guided restarts); most layouts are small (1-7 mappings over 5-9 keys, at most 4 / 5 keys held), one in twenty is wide (generator D: up to 10 mappings, outputs of up to 18 keys, repeat chords of up to 12 keys, up to 20 keys held); generator C draws its modifiers from a palette of 2-3 per layout, generator E is absorbing-centric; one layout in eight gives all its Special repeats the same keys and timing",
    "keys: per layout a handful, across layouts the whole key-code space (all eight modifiers, non-modifier layer keys, media and vendor keys, codes above 255 and above 561, families of keys that coincide in their low 7 or 8 bits)",
]

MAPPER_NOTE = ("Trusted: the snapshot hook, the monitor's own fold of the event stream, and the notions 'acted' / 'fired' / 'in effect' "
               "read from hooked state (cross-checked with marker keys in generator-B layouts). Sampled, not exhaustive.")

def mapper(rule, floors_q, floors_t, extra_assume=None, text=None, ref="3 (per-property design), 2 (workloads)"):
    return {
        "level_text": text or "Online assertion monitor on every Mapper::step / release_all of seeded, coverage-guided random histories over the corpus of real layouts and three generators of small hostile layouts; held on what was observed, nothing proved.",
        "level_note": MAPPER_NOTE,
        "design_ref": ref,
        "technique": "runtime monitoring: online invariant/reference-rule monitor on hooked state and API events of the real mapper",
        "engine": "mapper",
        "level": "exploration",
        "evaluations": ["steps"],
        "rule": rule,
        "floors": {"quick": floors_q, "thorough": floors_t},
        "assumptions": MAPPER_ASSUME + (extra_assume or []),
    }

PROPS = {
    "C01": mapper("one evaluation = one monitored Mapper::step / release_all call of a seeded walk over a corpus or generated layout; "
                  "non-trivial = a step that brings the input to rest after at least one mapping fired since the previous rest; "
                  "distinct on (layout, mapper state before the step, event)", {}, {}),
    "C02": mapper("one evaluation = one monitored step; non-trivial = a step after which at least one mapping is in effect and at least one key is passed through; "
                  "distinct on (layout, mapper state before the step, event)", {}, {}),
    "C03": mapper("one evaluation = one monitored step in a layout without absorbing ('in effect' is judged against the monitor's own record - fired and no trigger key released since - as well as against the mapper's list); non-trivial = a fresh key press with >= 2 qualifying mappings, or with a mapping already in effect; "
                  "distinct on (layout, mapper state before the step, event)", {}, {}),
    "C04": mapper("one evaluation = one monitored step in a layout without absorbing; non-trivial = the instant a key-producing mapping presses its final key while a modifier-carrying mapping is in effect; "
                  "distinct on (layout, mapper state before the step, event)", {}, {}),
    "C05": mapper("one evaluation = one monitored step; non-trivial = a foreign-key press while a mapping is in effect, a release with >= 2 mappings in effect, or a firing while a protected mapping stays in effect; "
                  "distinct on (layout, mapper state before the step, event)", {}, {}),
    "C06": mapper("one evaluation = one monitored step (lock-step against a fresh mapper since the last rest / release-all) or probe step; non-trivial = a rest point whose internal state differs from the fresh state, or a release-all with a mapping in effect; "
                  "distinct on (layout, residual state) / (layout, state, event)", {}, {}),
    "C07": mapper("one evaluation = one monitored step in a layout with Disabled/Special mappings; non-trivial = a no-repeat firing while a non-modifier key is down on the output; "
                  "distinct on (layout, mapper state before the step, event)", {}, {}),
    "C08": mapper("one evaluation = one monitored step in a layout with absorbing mappings; non-trivial = a press while an absorbed modifier is still held (other key / trigger again) or a press that needs a re-pressed modifier; "
                  "distinct on (layout, mapper state before the step, event)", {}, {}),
    "C09": mapper("one evaluation = one monitored step in a layout with Special mappings; non-trivial = a Special firing, or an ignored/acted event while a repeat is pending; "
                  "distinct on (layout, mapper state before the step, event)", {}, {}),
    "C19": mapper("one evaluation = one monitored step (strict fold of every emitted event); non-trivial = a step taken while >= 2 mappings sharing an output key are in effect; "
                  "distinct on (layout, mapper state before the step, event)", {}, {}),
}

LOOP_NOTE = ("Trusted: the scripted-driver adapter hook, the virtual clock (clock_gettime defined by the harness binary; a real-clock bracket run guards the assumption that the loop "
             "reads time only through it), the 60-line loop-contract reference, which uses the real Mapper for key semantics. Schedules are sampled.")
LOOP_ASSUME = ["the loop reads time only through clock_gettime", "edge-triggered readiness as modelled by the scripted world (arrivals at poll, trickle during a drain, phantom readiness, one to three signal interruptions on the first waits after an arrival; the loop's back-off sleep runs on the virtual clock)", "real-driver phase: pipes stand in for the evdev, switch and uinput nodes (no ioctl is exercised); layouts are used with Special repeats turned into Disabled; keyboard and switch events are only interleaved at quiescent points",
               "schedules and histories are sampled: mostly 4-60 events with at most 4 / 5 keys held and chunks of 1-8 events; at low frequency chunks of 9-24, 100-300 and 1025-1400 events, histories of 1100-2600 events, histories with up to 24 keys held, injected lateness of 3 / 40 / 700 ms and one-off stalls of 0.15-30 s"]

def loop(level, rule, floors_q, floors_t, text, technique, evaluations=("schedules", "metamorphic_runs")):
    return {"engine": "loop", "level": level, "evaluations": list(evaluations), "rule": rule, "floors": {"quick": floors_q, "thorough": floors_t},
            "assumptions": LOOP_ASSUME, "level_text": text, "level_note": LOOP_NOTE, "design_ref": "3.2", "technique": technique}

PROPS["C10"] = loop("exploration",
    "one evaluation = one execution of the real per-device loop against a scripted schedule (random chunking of a key history, tablet events, spurious time-outs, one interruption, phantom readiness, trickling arrivals, end-of-device at any position) "
    "or one metamorphic run (same history, another split); non-trivial = a schedule with a wake-up delivering >= 2 events or both devices; distinct on (layout, schedule); plus, second phase, one execution of the same loop on the REAL driver (mio epoll, evdev reader, uinput writer) over pipes fed with input_event records in write() calls of 1-170 records", {}, {},
    "Offline checker over the boundary log of every driver call against the loop contract (expected write after every consumed event, nothing unread at poll, nothing after end-of-device) plus a metamorphic comparison of the written payloads over splits of the same history. Real-driver phase: at every quiescent point (decided from the monitored system calls, not from time) the decoded bytes of the output pipe must equal the reference mapper's non-empty step outputs, write for write; ENODEV must end the loop with Ok and no further write.",
    "runtime monitoring: boundary-log checker against an executable loop contract + metamorphic re-chunking, virtual clock; the real driver over pipes with interposed read/write/epoll_wait and an output-stream oracle at quiescent points", evaluations=("schedules", "metamorphic_runs", "realdrv_cases"))
PROPS["C11"] = loop("exploration",
    "one evaluation = one execution of the real loop against a scripted schedule with delays long enough for timer ticks (virtual clock, optional injected lateness of 3/40 ms); non-trivial = a schedule in which at least one timer tick occurred; distinct on (layout, schedule, lateness)", {}, {},
    "Offline checker: every poll time-out must equal next_wakeup - now (1 ms when overdue) with next_wakeup carried forward by addition only, every time-out with a pending repeat must be followed by exactly the chord of not-yet-held keys, any acted key event or tablet event cancels. Exact on the virtual clock; a small real-clock run checks a load-independent lower bracket.",
    "runtime monitoring: boundary-log checker with a virtual clock (exact time-outs) and a real-clock bracket run", evaluations=("schedules", "real_clock_runs"))
PROPS["C12"] = loop("exploration",
    "one evaluation = one execution of the real loop against a schedule with tablet on/off events (repeated, alone or in the same wake-up as keyboard events in both flag orders, while chords are held or a repeat is pending); non-trivial = a schedule with at least one switch-on; distinct on (layout, schedule, lateness)", {}, {},
    "Offline checker: switch-on must be followed by exactly the release of everything held and nothing else may be written until switch-off; after switch-off the writes must equal those of a fresh Mapper fed the post-off events. The same contract is checked on the real driver over pipes (switch records, foreign EV_SW records) at quiescent points.",
    "runtime monitoring: boundary-log checker against an executable loop contract, virtual clock; the real driver over pipes with an output-stream oracle at quiescent points", evaluations=("schedules", "realdrv_cases"))
PROPS["C20"] = loop("fault_enumeration",
    "one evaluation = one execution of the real loop with the k-th driver call (register, poll, read keyboard, read tablet, send) failing, for every k of the fault-free run of a sampled (layout, history, schedule) (every k-th when the run has > 120 calls in quick); non-trivial/distinct = (layout, schedule, k) whose fault point was reached", {}, {},
    "Fault enumeration: for each sampled schedule the fault-free run counts its driver calls n, then the run is repeated n times with call k returning an error; the loop must return that error, write nothing afterwards and stop within 64 calls. Three quarters of the injected errors carry the text the real driver produces for an OS error at that kind of call (the loop's own format strings filled with nix's rendering of an errno value). Second phase, on the real driver over pipes: every read, write and epoll_wait the driver makes is failed in turn with a real errno at the libc boundary; the loop must return an error naming it, make no further driver call and no further write (ENODEV on a read must end it with Ok).",
    "runtime monitoring with fault injection at every driver call in turn (error texts: a marker, or what the real driver would print for one of 28 errno values) and, on the real driver, at every system call in turn (errno injected through interposed read/write/epoll_wait); oracles on the boundary log and on the system-call counters", evaluations=("fault_runs", "realdrv_fault_runs"))

PROPS["C17"] = {
    "engine": "systemd", "level": "exploration", "evaluations": ["patterns_lists"],
    "rule": "one evaluation = one list of exclude patterns pushed through the real build_service_text and decoded back; exhaustive over every Unicode scalar value except NUL as a one-character pattern and over every pair (thorough: triple) of 44 syntax-relevant characters, plus seeded random strings and lists of 1-4 patterns (now and then 30-150), plus every word of a dictionary mined from the string literals of the repository's own sources (template fields, format placeholders, option names, paths) alone, embedded, between wildcards and in pairs, plus every literal spelling of an escape sequence of the target syntax and every 4-gram (thorough: 5-gram) over the 14 characters escapes are made of, plus every scalar value next to a numerically escaped character on either side, plus every scalar value at the end and at the start of a pattern that is not the last of its list; one random list in 40, every long list and a sample of the one-scalar patterns are also written by the real write_systemd_service to /etc/systemd/system/totalmapper@.service (tmpfs over /etc in a private mount namespace, files written over one another) and decoded from the file read back; "
            "distinct = distinct pattern lists (every case differs from the identity encoding in at least the surrounding line, so all are non-trivial)",
    "floors": {"quick": {"single_scalar_values": 1112063, "scalar_next_to_an_escape": 3336189, "scalar_in_a_list_position": 2224126, "unit_files_written_and_read_back": 100000, "unit_files_with_long_lists": 10000, "syntax_pairs": 1900, "long_pattern_lists": 1000, "dictionary_tokens": 500, "literal_escape_spellings": 1200, "escape_alphabet_ngrams": 38416},
               "thorough": {"single_scalar_values": 1112063, "scalar_next_to_an_escape": 3336189, "scalar_in_a_list_position": 2224126, "unit_files_written_and_read_back": 100000, "unit_files_with_long_lists": 10000, "syntax_triples": 85000, "long_pattern_lists": 50000, "dictionary_tokens": 500, "literal_escape_spellings": 1200, "escape_alphabet_ngrams": 537824}},
    "assumptions": ["the decoder implements systemd's documented rules (word splitting on space/tab/newline/CR, quotes anywhere in a word, C unescaping with unknown escapes kept, %% and % specifiers, $$ / ${VAR} / whole-word $VAR against an empty environment)",
                    "the ';' command-separator rule is not modelled (not among the rules the property enumerates)"],
    "level_text": "Independent decoder of systemd's ExecStart rules applied to the text the real code generates; exact argv comparison, byte for byte. Exhaustive on single scalar values and on pairs of syntax-relevant characters, sampled beyond.",
    "level_note": "Trusted: the decoder (written from systemd.service(5)/systemd.syntax(7), self-tested on hand-written lines at start-up) and the build_service_text wrapper hook.",
    "design_ref": "3 C17", "technique": "runtime monitoring: differential round trip of the real escaper through an independent reference decoder; exhaustive sub-spaces (all scalar values, alone and next to an escape; pairs/triples and 4/5-grams of syntax characters; every literal escape spelling) plus a dictionary mined from the program's own string literals",
    "exhaustive_counter": "single_scalar_values", "exhaustive_text": "all 1,112,063 non-NUL Unicode scalar values as one-character patterns; all pairs over the syntax-relevant characters",
}

PROPS["C18"] = {
    "engine": "wire", "level": "exploration", "evaluations": ["batches", "session_batches"],
    "rule": "one evaluation = one batch of events written by the real DevInputWriter into a pipe (bytes compared with records built from libc::input_event), then decoded back by the real DevInputReader twice: the writer's own bytes, and the same key records with foreign records "
            "(value 2, EV_MSC, EV_SYN, EV_REL, EV_LED, EV_REP, unknown codes, odd values) interleaved; exhaustive over all key codes x {press, release} alone and paired with a neighbour, plus the empty batch, every batch length 0-2100 and seeded random batches of up to 2000 events; "
            "sessions: many batches through ONE writer and ONE reader, each checked as it is sent - a sweep over pairs of consecutive equal-length batches that differ in the direction of one event and the key of one event (every key), and random sessions of repeated / permuted / slightly mutated batches; distinct = distinct batches and sessions",
    "floors": {"quick": {"exhaustive_single": 968, "every_length_0_to_2100": 2101, "foreign_records_interleaved": 10000, "codes_matched_against_kernel_header": 300, "related_pairs_swept": 100000, "sessions_random_related": 5000},
               "thorough": {"exhaustive_single": 968, "every_length_0_to_2100": 2101, "foreign_records_interleaved": 100000, "codes_matched_against_kernel_header": 300, "related_pairs_swept": 1000000, "sessions_random_related": 100000}},
    "assumptions": ["a pipe stands in for /dev/uinput and for the evdev node (no ioctl is involved in send/next)", "struct layout taken from the libc crate for this target"],
    "level_text": "Byte oracle from libc::input_event on everything the real writer emits, decode-back through the real reader, exhaustive over the 484 key codes, sampled over batch shapes and interleavings.",
    "level_note": "Trusted: libc's struct input_event, the verif_from_fd constructor hook, the transcription of kernel key codes from the uinput-sys crate used to cross-check the numeric codes.",
    "design_ref": "3 C18", "technique": "runtime monitoring: byte-level oracle on a pipe + decode-back differential, exhaustive over key codes; sessions of related consecutive batches through one writer/reader with injected failing sends (state across calls)",
    "exhaustive_counter": "exhaustive_single", "exhaustive_text": "all key codes the enum knows x {press, release}, alone and in pairs with a neighbour",
}

PROPS["C13"] = {
    "engine": "convert", "level": "translation_validation", "evaluations": ["programs"],
    "rule": "one program = one layout written with alias / row / repeat-only shorthands, pushed through the real parse_layout_from_json + convert and compared block by block (one block per source entry, multiset inside a block) with an independent reference expansion; "
            "systematic part: every printable US-QWERTY character at every position of every row, with no modifier, with RIGHTSHIFT and with a two-definition @shift alias, letters and repeat letters alike; generated part: 0-3 aliases with 1-3 definitions, 1-6 entries, every row name in both cases, all repeat forms, absorbing lists; "
            "each compared program is also re-rendered in two equivalent spellings that must convert identically; programs whose expansion contains a key twice in one from/to are skipped (C14's territory); distinct_nontrivial counts distinct programs that use at least one shorthand",
    "floors": {"quick": {"systematic_char_position_programs": 16000, "disagreements_checked": 100000, "feature_two_or_more_aliases": 1000, "feature_row_special_repeat": 1000, "feature_repeat_only": 1000, "feature_alias_on_output_side": 1000, "spelling_variants": 50000},
               "thorough": {"systematic_char_position_programs": 16000, "disagreements_checked": 1000000, "feature_two_or_more_aliases": 10000, "spelling_variants": 500000}},
    "assumptions": ["the reference expander (refexpand.rs) implements the README and the property statement; where the statement is silent two outcomes are accepted (what a one-standard-modifier alias definition itself maps to; a second repeat-only entry on a trigger only an earlier repeat-only entry created)",
                    "row shorthands cover 13/12/12/11/10 keys (the backslash key is not part of row Q); longer letters are not generated here"],
    "level_text": "Translation validation of the shorthand compiler: every generated program is converted by the real code and validated against an independent expansion; nothing is proved about programs not generated.",
    "level_note": "Trusted: the reference expander and its own US-QWERTY table (self-tested on the README's worked example at start-up).",
    "design_ref": "3 C13", "technique": "runtime monitoring: reference-model monitor (independent expander) over generated programs, metamorphic spelling variants",
    "exhaustive_counter": "systematic_char_position_programs", "exhaustive_text": "94 characters x every position of the 5 rows x 3 trigger variants",
}
PROPS["C14"] = {
    "engine": "load", "level": "exploration", "evaluations": ["inputs"],
    "rule": "one evaluation = one input written to a file and loaded with the real load_layout_from_file under catch_unwind (structure-aware mutations of the corpus layouts and of generated valid programs, arbitrary JSON values over the layout vocabulary, raw byte strings: random, truncated, flipped, BOM, deep nesting, out-of-range numbers, duplicate object keys); "
            "every accepted layout is installed with Mapper::for_layout and driven with a random ill-formed history plus release_all, again under catch_unwind; distinct_nontrivial = distinct accepted layouts + distinct rejection-message classes",
    "floors": {"quick": {"accepted": 50000, "rejected": 50000, "accepted_mutated_corpus": 10000, "accepted_mutated_program": 10000, "inputs_stuffed_row_mapping": 5000, "steps_driven": 1000000},
               "thorough": {"accepted": 500000, "rejected": 500000, "steps_driven": 10000000}},
    "assumptions": ["panics are observed with catch_unwind (the harness is built with panic=unwind, overflow checks and debug assertions on); a process death by signal (stack overflow, abort) is reported by the driver with the last input as witness",
                    "only the mapper is driven, not the event loop (a negative delay_ms makes the loop's Instant arithmetic panic; outside the property as stated)"],
    "level_text": "Panic monitor around the real load pipeline and the mapper on tens of thousands (quick) / millions (thorough) of hostile inputs; held on what was generated.",
    "level_note": "Trusted: catch_unwind as the observer of panics; the mutation engine only decides reach.",
    "design_ref": "3 C14", "technique": "runtime monitoring: panic/abnormal-exit monitor under structure-aware mutation and byte-level fuzz inputs",
    "abnormal_exit_is_violation": True,
}

PROPS["C15"] = {
    "engine": "roundtrip", "level": "exploration", "evaluations": ["layouts_round_tripped"],
    "rule": "one evaluation = one basic layout written by the real write_layout_to_global_config to /etc/totalmapper.json (a tmpfs mounted over /etc in a private mount namespace) and read back by the real load_layout_from_file; mappings must be equal, in order; "
            "exhaustive over the key codes (each as trigger, output, repeat key and absorbed modifier), plus the converter's output for the corpus and for generated shorthand programs (one in three damaged by structure-aware mutations first: whatever the loader still accepts has to round-trip too), plus random basic layouts over all key codes with empty outputs, 0-3 key chords and extreme i32 repeat parameters, plus every pair of different 2-3 key chords whose key NAMES run together to the same text ([HOME,PAGEUP] / [HOMEPAGE,UP]; about 2900 pairs) in every role and both orders; distinct = distinct layouts",
    "floors": {"quick": {"name_twin_layouts": 20000, "per_key_code": 484, "converted_programs": 40000, "random_basic_layouts": 40000, "mappings_with_absorbing": 10000, "special_with_empty_chord": 1000, "big_layouts": 16, "ran_in_private_namespace": 16, "mutated_programs_converting": 20000},
               "thorough": {"name_twin_layouts": 20000, "mutated_programs_converting": 200000, "per_key_code": 484, "converted_programs": 600000, "random_basic_layouts": 600000, "ran_in_private_namespace": 16}},
    "assumptions": ["a tmpfs over /etc in a private mount namespace stands in for the real /etc (if the namespace cannot be created the same serialiser is used through a temp file and the evidence says so; the floor then fails)"],
    "level_text": "End-to-end differential on the real save and load code paths, exhaustive over the 484 key codes, sampled over layouts.",
    "level_note": "Trusted: the write_layout_to_global_config wrapper hook, PartialEq on Mapping.",
    "design_ref": "3 C15", "technique": "runtime monitoring: round-trip monitor through the real save and load paths in a private mount namespace, exhaustive over key codes; valid, generated and mutated (hostile but accepted) programs",
    "exhaustive_counter": "per_key_code", "exhaustive_text": "all key codes the enum knows",
}
PROPS["C16"] = {
    "engine": "devices", "level": "exploration", "evaluations": ["texts", "e2e_all_keyboards_runs", "e2e_dev_file_runs", "e2e_list_keyboards_runs"],
    "rule": "one evaluation = one generated /proc/bus/input/devices text (1-9 entries drawn from 33 realistic entries, renumbered, with names / key masks / event masks swapped, key bitmaps synthesised as random subsets of a real keyboard's keys plus stray bits, and any field but the I: header dropped) through both real extractors (hook level; one text in four also with the extractors' verbose flag on, which is what the installed unit uses), or one run of the real binary "
            "(list_keyboards, remap --all-keyboards --verbose, remap --only-if-keyboard --dev-file per device) in a private mount namespace with that text bound over /proc/bus/input/devices and fabricated /sys/devices and /dev/input; distinct = distinct texts",
    "floors": {"quick": {"keyboard_entries_right_after_an_entry_with_a_missing_field": 5000, "exclude_sets_matching_1_device": 5000, "e2e_all_keyboards_runs": 500, "e2e_dev_file_runs": 2000, "e2e_virtual_keyboard_entries": 20, "e2e_excluded_keyboard_entries": 50, "ran_in_private_namespace": 16, "dictionary_tokens": 500, "related_pattern_lists": 5000, "small_pattern_pairs": 115600, "synthesised_key_bitmaps": 100000, "texts_also_checked_verbose": 30000},
               "thorough": {"dictionary_tokens": 500, "small_pattern_pairs": 1860496, "synthesised_key_bitmaps": 1000000, "keyboard_entries_right_after_an_entry_with_a_missing_field": 50000, "e2e_all_keyboards_runs": 10000, "e2e_dev_file_runs": 50000, "ran_in_private_namespace": 16}},
    "assumptions": ["entries are delimited by the I: line, which the kernel always prints", "an entry's own classification (the extractor run on that entry alone) defines keyboard-like", "glob semantics of --exclude: * any sequence, ? one character, whole-name match"],
    "level_text": "Metamorphic (entry alone vs in context) and differential (two extractors, two CLI routes) monitors plus an independent glob matcher; the CLI routes are observed on the real binary in a fabricated namespace.",
    "level_note": "Trusted: the extractor / exclusion wrapper hooks, the parsing of the binary's --verbose output, the fabricated /proc, /sys and /dev trees.",
    "design_ref": "3 C16", "technique": "runtime monitoring: metamorphic + differential monitors at hook level and on the real binary in a private mount namespace; synthesised key bitmaps; exhaustive pairs of small exclude patterns against an independent glob matcher",
    "needs_real_binary": True,
}

ENGINES = [
    {"name": "mapper", "path": "/verif/harness/src/mapper_mon.rs", "serves_properties": ["C01", "C02", "C03", "C04", "C05", "C06", "C07", "C08", "C09", "C19"],
     "kind_free_text": "online monitors around Mapper::step/release_all; seeded random walks with frontier restarts from hook snapshots"},
    {"name": "loop", "path": "/verif/harness/src/loop_mon.rs", "serves_properties": ["C10", "C11", "C12", "C20"],
     "kind_free_text": "the real per-device loop under a scripted world (virtual clock, boundary log, fault injection) + offline log checker"},
    {"name": "systemd", "path": "/verif/harness/src/systemd_mon.rs", "serves_properties": ["C17"],
     "kind_free_text": "real build_service_text output decoded by an independent ExecStart decoder"},
    {"name": "wire", "path": "/verif/harness/src/wire_mon.rs", "serves_properties": ["C18"],
     "kind_free_text": "real DevInputWriter/DevInputReader over a pipe with a libc::input_event byte oracle"},
    {"name": "convert", "path": "/verif/harness/src/convert_mon.rs", "serves_properties": ["C13"],
     "kind_free_text": "real parser+converter against the independent reference expander of refexpand.rs"},
    {"name": "load", "path": "/verif/harness/src/load_mon.rs", "serves_properties": ["C14"],
     "kind_free_text": "panic monitor around load_layout_from_file, Mapper::for_layout and Mapper::step"},
    {"name": "roundtrip", "path": "/verif/harness/src/roundtrip_mon.rs", "serves_properties": ["C15"],
     "kind_free_text": "real save path + real load path over a tmpfs /etc in a private mount namespace"},
    {"name": "devices", "path": "/verif/harness/src/devices_mon.rs", "serves_properties": ["C16"],
     "kind_free_text": "the two real device-list extractors at hook level; the real binary in a fabricated /proc,/sys,/dev namespace"},
]

NOT_APPLICABLE = [
]

# antecedent counters whose floors are measured by lib/measure_floors.py (one tenth of the minimum over several seeds)
ANTECEDENTS = {
    "C01": ["wide_layouts", "layouts_genD", "c01_rest_after_firing", "rest_points", "release_all_calls", "exhaustive_layouts_completed", "exhaustive_transitions", "distinct_nontrivial"],
    "C02": ["wide_layouts", "layouts_genD", "exhaustive_layouts_completed", "exhaustive_transitions", "c02_steps_mapping_and_passthrough", "c02_firings_while_other_in_effect", "c02_acted_releases", "distinct_nontrivial"],
    "C03": ["wide_layouts", "layouts_genD", "exhaustive_layouts_completed", "exhaustive_transitions", "c03_presses_with_2plus_candidates", "c03_presses_with_mapping_in_effect", "c03_marker_checks", "c03_presses_mentioned_by_mapping_in_effect", "distinct_nontrivial"],
    "C04": ["wide_layouts", "layouts_genD", "exhaustive_layouts_completed", "exhaustive_transitions", "c04_instants", "c04_instants_with_modifier_carrying_mapping_in_effect", "distinct_nontrivial"],
    "C05": ["wide_layouts", "layouts_genD", "exhaustive_layouts_completed", "exhaustive_transitions", "c05a_foreign_presses_with_mapping_in_effect", "c05b_empty_layout_steps", "c05c_releases_with_2plus_mappings_in_effect", "c05d_obligations", "c05d_obligations_during_firing", "distinct_nontrivial"],
    "C06": ["wide_layouts", "layouts_genD", "exhaustive_layouts_completed", "exhaustive_transitions", "c06_reset_points_with_residual_state", "c06_release_all_with_mapping_in_effect", "c06_probes", "distinct_nontrivial"],
    "C07": ["wide_layouts", "layouts_genD", "exhaustive_layouts_completed", "exhaustive_transitions", "c07_norepeat_firings_with_action_key_down_before", "c07_watched_followup_steps", "distinct_nontrivial"],
    "C08": ["wide_layouts", "layouts_genD", "exhaustive_layouts_completed", "exhaustive_transitions", "c08_presses_of_other_key_while_armed", "c08_trigger_pressed_again_first", "c08_counts_again_checks", "c08_dup_press_of_absorbed_modifier", "distinct_nontrivial"],
    "C09": ["wide_layouts", "layouts_genD", "exhaustive_layouts_completed", "exhaustive_transitions", "c09_special_firings", "c09_ignored_events_while_repeat_pending", "c09_acted_events_while_repeat_pending", "distinct_nontrivial"],
    "C19": ["wide_layouts", "layouts_genD", "exhaustive_layouts_completed", "exhaustive_transitions", "c19_steps_with_shared_output_in_effect", "release_all_calls", "distinct_nontrivial"],
    "C10": ["realdrv_cases", "realdrv_quiescent_points_compared", "realdrv_wakeups_with_2plus_key_records", "realdrv_writes_compared", "realdrv_foreign_records", "realdrv_interruptions", "realdrv_empty_wakeups", "realdrv_end_keyboard", "realdrv_hang_ups_reported", "schedules_with_consecutive_interruptions", "backoff_sleeps_on_the_virtual_clock", "flood_histories", "wide_histories", "schedules_with_a_stall", "wakeups_with_2plus_events", "wakeups_both_devices", "spurious_timeouts", "interruptions", "end_keyboard", "end_tablet", "metamorphic_runs", "distinct_nontrivial"],
    "C11": ["schedules_with_consecutive_interruptions", "wide_histories", "schedules_with_a_stall", "ticks", "firings_with_3plus_ticks", "ticks_with_chord_key_held", "ticks_after_ignored_event", "cancellations_by_other_key", "catchup_polls", "real_clock_timed_polls", "distinct_nontrivial"],
    "C12": ["realdrv_cases", "realdrv_switch_on", "realdrv_quiescent_points_compared", "realdrv_writes_compared", "schedules_with_consecutive_interruptions", "wide_histories", "schedules_with_a_stall", "tablet_on", "tablet_on_with_keys_held", "tablet_on_with_repeat_pending", "tablet_repeated", "kb_events_in_tablet_mode", "post_off_steps", "tablet_and_keyboard_same_wakeup", "distinct_nontrivial"],
    "C20": ["realdrv_cases", "realdrv_fault_runs", "realdrv_faults_at_read_keyboard", "realdrv_faults_at_read_tablet", "realdrv_faults_at_write_output", "realdrv_faults_at_epoll_wait", "realdrv_enodev_reads", "realdrv_late_failures_of_a_timed_wait", "schedules_with_consecutive_interruptions", "backoff_sleeps_on_the_virtual_clock", "wide_histories", "fault_runs", "faults_at_send", "faults_at_poll", "faults_at_next_keyboard", "faults_at_next_tablet", "faults_at_register_poll", "distinct_nontrivial"],
}

import json as _json, os as _os
_fp = _os.path.join(_os.path.dirname(_os.path.abspath(__file__)), "floors.json")
if _os.path.exists(_fp):
    for _pid, _tiers in _json.load(open(_fp)).items():
        for _tier, _f in _tiers.items():
            PROPS[_pid]["floors"].setdefault(_tier, {}).update(_f)
        if "thorough" not in _tiers and "quick" in _tiers:
            # thorough explores a superset budget: the quick floors are a safe lower bound until thorough ones are measured
            PROPS[_pid]["floors"].setdefault("thorough", {}).update(_tiers["quick"])
