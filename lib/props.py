# Per-property table used by ./check: which engine decides the property, the level
# claimed, how evaluations are counted, the rule for "distinct non-trivial", floors.

MAPPER_ASSUME = [
    "the cfg(ellbur_totalmapper_verif) snapshot hook copies the mapper state faithfully",
    "histories are sampled (seeded random walks with coverage-guided restarts), layouts are small, at most 4 (quick) / 5 (thorough) keys held",
]

MAPPER_NOTE = ("Trusted: the snapshot hook, the monitor's own fold of the event stream, and the notions 'acted' / 'fired' / 'in effect' "
               "read from hooked state (cross-checked with marker keys in generator-B layouts). Sampled, not exhaustive.")

def mapper(rule, floors_q, floors_t, extra_assume=None, text=None, ref="3 (per-property design), 2 (workloads)"):
    return {
        "level_text": text or "Online assertion monitor on every Mapper::step / release_all of seeded, coverage-guided random histories over the corpus of real layouts and three generators of small hostile layouts; held on what was observed, nothing proved.",
        "level_note": MAPPER_NOTE,
        "design_ref": ref,
        "technique": "runtime monitoring: online invariant/reference-rule monitor on hooked state and API events of the real mapper",
        "engine": "mapper",
        "level": "exploration",
        "evaluations": ["steps"],
        "rule": rule,
        "floors": {"quick": floors_q, "thorough": floors_t},
        "assumptions": MAPPER_ASSUME + (extra_assume or []),
    }

PROPS = {
    "C01": mapper("one evaluation = one monitored Mapper::step / release_all call of a seeded walk over a corpus or generated layout; "
                  "non-trivial = a step that brings the input to rest after at least one mapping fired since the previous rest; "
                  "distinct on (layout, mapper state before the step, event)", {}, {}),
    "C02": mapper("one evaluation = one monitored step; non-trivial = a step after which at least one mapping is in effect and at least one key is passed through; "
                  "distinct on (layout, mapper state before the step, event)", {}, {}),
    "C03": mapper("one evaluation = one monitored step in a layout without absorbing; non-trivial = a fresh key press with >= 2 qualifying mappings, or with a mapping already in effect; "
                  "distinct on (layout, mapper state before the step, event)", {}, {}),
    "C04": mapper("one evaluation = one monitored step in a layout without absorbing; non-trivial = the instant a key-producing mapping presses its final key while a modifier-carrying mapping is in effect; "
                  "distinct on (layout, mapper state before the step, event)", {}, {}),
    "C05": mapper("one evaluation = one monitored step; non-trivial = a foreign-key press while a mapping is in effect, a release with >= 2 mappings in effect, or a firing while a protected mapping stays in effect; "
                  "distinct on (layout, mapper state before the step, event)", {}, {}),
    "C06": mapper("one evaluation = one monitored step (lock-step against a fresh mapper since the last rest / release-all) or probe step; non-trivial = a rest point whose internal state differs from the fresh state, or a release-all with a mapping in effect; "
                  "distinct on (layout, residual state) / (layout, state, event)", {}, {}),
    "C07": mapper("one evaluation = one monitored step in a layout with Disabled/Special mappings; non-trivial = a no-repeat firing while a non-modifier key is down on the output; "
                  "distinct on (layout, mapper state before the step, event)", {}, {}),
    "C08": mapper("one evaluation = one monitored step in a layout with absorbing mappings; non-trivial = a press while an absorbed modifier is still held (other key / trigger again) or a press that needs a re-pressed modifier; "
                  "distinct on (layout, mapper state before the step, event)", {}, {}),
    "C09": mapper("one evaluation = one monitored step in a layout with Special mappings; non-trivial = a Special firing, or an ignored/acted event while a repeat is pending; "
                  "distinct on (layout, mapper state before the step, event)", {}, {}),
    "C19": mapper("one evaluation = one monitored step (strict fold of every emitted event); non-trivial = a step taken while >= 2 mappings sharing an output key are in effect; "
                  "distinct on (layout, mapper state before the step, event)", {}, {}),
}

ENGINES = [
    {"name": "mapper", "path": "/verif/harness/src/mapper_mon.rs", "serves_properties": ["C01", "C02", "C03", "C04", "C05", "C06", "C07", "C08", "C09", "C19"],
     "kind_free_text": "online monitors around Mapper::step/release_all; seeded random walks with frontier restarts from hook snapshots"},
]

NOT_APPLICABLE = [
]
