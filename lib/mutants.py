#!/usr/bin/env python3
"""Sensitivity self-test (DESIGN.md section 4): hand-written mutants of /repo, each applied textually,
checked against the 49 unit tests (does the suite kill it?) and against the quick check of the properties
it is expected to break, then undone. Nothing is committed to /repo.

  mutants.py [name-substring ...]      -> writes /verif/seeded/self_mutants_result.json
"""
import json, os, re, subprocess, sys, time

ROOT = os.path.dirname(os.path.dirname(os.path.abspath(__file__)))
REPO = "/repo"
KT = "src/key_transforms.rs"
RL = "src/remapping_loop.rs"

# (name, expected properties, file, old, new)
M = [
 ("m01-handover-without-release", ["C01", "C02"], KT,
  "        else {\n          res.push(Released(k));\n        }\n      }\n      else {\n        res.push(Released(k));",
  "        else {\n        }\n      }\n      else {\n        res.push(Released(k));"),
 ("m02-release-all-skips-a-key", ["C06", "C01"], KT, "    for k in to_release {\n      let mut chunk", "    for k in to_release.into_iter().skip(1) {\n      let mut chunk"),
 ("m03-passthrough-release-dropped-while-mapping-active", ["C01", "C05"], KT,
  "    if state.pass_through_keys[i] == k {\n      events.push(Released(k));\n      state.pass_through_keys.remove(i);\n      break;\n    }\n  }\n  \n  state.input_pressed_keys.retain(|&old_key| {",
  "    if state.pass_through_keys[i] == k {\n      if state.active_mappings.len() < 2 { events.push(Released(k)); }\n      state.pass_through_keys.remove(i);\n      break;\n    }\n  }\n  \n  state.input_pressed_keys.retain(|&old_key| {"),
 ("m04-still-shadowed-ignored", ["C02"], KT, "        if !still_shadowed {\n          pass_through_keys.push(k);", "        if true {\n          pass_through_keys.push(k);"),
 ("m05-trigger-consumption-kept-for-long-triggers", ["C02", "C04"], KT,
  "      if !m.to.contains(&old_key) {\n        events.push(Released(old_key));\n        false",
  "      if !m.to.contains(&old_key) {\n        if m.from.len() > 2 { return true; }\n        events.push(Released(old_key));\n        false"),
 ("m06-repress-dropped", ["C03"], KT,
  "      if state.mapped_output_keys.contains(new_key) {\n        events.push(Released(*new_key));\n        events.push(Pressed(*new_key));\n      }",
  "      if state.mapped_output_keys.contains(new_key) {\n      }"),
 ("m07-support-check-ignores-first-key-of-long-trigger", ["C03", "C02"], KT,
  "  for k in trigger {\n    if !((pressed_keys.contains(&k)", "  for k in trigger.iter().skip(if trigger.len() >= 3 { 1 } else { 0 }) {\n    if !((pressed_keys.contains(&k)"),
 ("m08-stale-modifiers-kept-for-two-key-outputs", ["C04"], KT, "      if exsting_mapping.to.len() > 1 && is_any_modifier(&exsting_mapping.to) {", "      if exsting_mapping.to.len() > 2 && is_any_modifier(&exsting_mapping.to) {"),
 ("m10-still-used-ignored", ["C05", "C19"], KT, "    if !still_used {\n      if input_pressed_keys.contains(&k) && k != removed_key {", "    if true {\n      if input_pressed_keys.contains(&k) && k != removed_key {"),
 ("m11-no-repeat-lifts-passthrough-modifiers", ["C05"], KT, "  state.pass_through_keys.retain(|k| {\n    if is_action_key(k) {", "  state.pass_through_keys.retain(|k| {\n    if true {"),
 ("m12-absorbed-list-not-cleared-on-repress", ["C06", "C08"], KT, "  state.mapped_absorbed_keys.retain(|k2| *k2 != k);\n  state.repeating_trigger = None;", "  state.repeating_trigger = None;"),
 ("m13-no-repeat-keeps-passthrough-action-keys", ["C07"], KT,
  "  state.pass_through_keys.retain(|k| {\n    if is_action_key(k) {\n      to_release.push(*k);\n      false\n    }", "  state.pass_through_keys.retain(|k| {\n    if is_action_key(k) && false {\n      to_release.push(*k);\n      false\n    }"),
 ("m14-special-arm-not-releasing-passthrough", ["C07"], KT,
  "      // First release action keys\n      res.events.append(&mut release_all_action_keys(state));",
  "      // First release action keys\n      if state.pass_through_keys.is_empty() { res.events.append(&mut release_all_action_keys(state)); }"),
 ("m15-absorbed-not-hidden-when-several-candidates", ["C08"], KT, "      if should_absorb {\n        state.mapped_absorbed_keys.clone()\n      }", "      if should_absorb && mappings.len() < 2 {\n        state.mapped_absorbed_keys.clone()\n      }"),
 ("m16-absorbed-not-forgotten-as-input", ["C08"], KT, "    state.input_pressed_keys.retain(|k2| *k2 != k);\n  }\n  \n  events\n}", "  }\n  \n  events\n}"),
 ("m17-silent-release-does-not-cancel-repeat", ["C09"], KT, "  let repeat = ResultingRepeat::Disabled;\n  \n  StepResult { events, repeat }", "  let repeat = if events.is_empty() { ResultingRepeat::NoChange } else { ResultingRepeat::Disabled };\n  \n  StepResult { events, repeat }"),
 ("m18-duplicate-press-cancels-repeat", ["C09"], KT,
  "          newly_press(self, k)\n        }\n        else {\n          StepResult {\n            events: vec![],\n            repeat: ResultingRepeat::NoChange",
  "          newly_press(self, k)\n        }\n        else {\n          StepResult {\n            events: vec![],\n            repeat: ResultingRepeat::Disabled"),
 ("m19-modifier-pressed-while-passthrough-holds-it", ["C19"], KT,
  "      if !state.mapped_output_keys.contains(new_key) && !state.pass_through_keys.contains(new_key) {", "      if !state.mapped_output_keys.contains(new_key) {"),
 ("m20-f1-reverted", ["C19"], KT, "          if state.mapped_output_keys.contains(mod_key) && !keys_to_release.contains(mod_key) {", "          if state.mapped_output_keys.contains(mod_key) {"),
 # ---- loop ----
 ("l01-one-event-per-wakeup-when-silent", ["C10"], RL,
  "                          ResultingRepeat::NoChange => working_repeat\n                        };", "                          ResultingRepeat::NoChange => working_repeat\n                        };\n                        if evs_out.is_empty() { break; }"),
 ("l02-releases-written-at-end-of-device", ["C10"], RL,
  "                      if verbose { eprintln!(\"Ending remapping loop because no more keyboard events.\"); }\n                      return Ok(());",
  "                      if verbose { eprintln!(\"Ending remapping loop because no more keyboard events.\"); }\n                      let rel = mapper.release_all();\n                      if !rel.is_empty() { driver.send(&rel)?; }\n                      return Ok(());"),
 ("l03-timer-drift", ["C11"], RL, "                  next_wakeup: next_wakeup + Duration::from_millis(interval_ms as u64),", "                  next_wakeup: Instant::now() + Duration::from_millis(interval_ms as u64),"),
 ("l04-ignored-event-cancels-repeat", ["C11"], RL, "                          ResultingRepeat::NoChange => working_repeat\n", "                          ResultingRepeat::NoChange => WorkingRepeat::Idle\n"),
 ("l05-f2-reverted", ["C11"], RL, "keys.iter().filter(|k| !mapper.is_output_key_held(k)).map(|k| *k).collect();", "keys.iter().map(|k| *k).collect();"),
 ("l06-tablet-on-keeps-repeat", ["C12", "C11"], RL, "                          in_tablet_mode = true;\n                          working_repeat = WorkingRepeat::Idle;", "                          in_tablet_mode = true;"),
 ("l07-keyboard-mapped-in-tablet-mode-after-second-on", ["C12"], RL, "                          in_tablet_mode = true;\n", "                          in_tablet_mode = !in_tablet_mode;\n"),
 ("l08-tablet-on-releases-not-written", ["C12"], RL,
  "                          in_tablet_mode = true;\n                          working_repeat = WorkingRepeat::Idle;\n                          let release_events = mapper.release_all();\n                          if !release_events.is_empty() {",
  "                          in_tablet_mode = true;\n                          working_repeat = WorkingRepeat::Idle;\n                          let release_events = mapper.release_all();\n                          if release_events.len() > 2 {"),
 ("l09-send-error-swallowed", ["C20"], RL, "                          driver.send(&evs_out)?;", "                          let _ = driver.send(&evs_out);"),
 ("l10-read-error-treated-as-busy", ["C20"], RL, "                  match driver.next_keyboard()? {", "                  match driver.next_keyboard().unwrap_or(Next::Busy) {"),
 ("l11-tablet-read-error-ends-loop-ok", ["C20"], RL, "                  match driver.next_tablet()? {", "                  match driver.next_tablet().unwrap_or(Next::End) {"),
 ("l12-timer-error-swallowed", ["C20"], RL, "                if !repeat_send.is_empty() {\n                  driver.send(&repeat_send)?;\n                }", "                if !repeat_send.is_empty() {\n                  driver.send(&repeat_send).ok();\n                }"),
 # ---- converter / loader ----
 ("x13a-tilde-without-shift", ["C13"], "src/char_production_map.rs", "res.insert('~',  SinkKey { sh: true, k: GRAVE });", "res.insert('~',  SinkKey { sh: false, k: GRAVE });"),
 ("x13b-row-1-offset", ["C13"], "src/physical_keyboard_layouts.rs", "res.insert(Row::USQuerty1.clone(), &US_ROW_GRAVE[1..]);", "res.insert(Row::USQuerty1.clone(), &US_ROW_GRAVE[..]);"),
 ("x13c-right-shift-rule-only-for-first-modifier", ["C13"], "src/fancy_layout_interpreting.rs", "  for k in from {\n    if *k == KeyCode::RIGHTSHIFT {\n      return true;", "  for k in from.iter().take(1) {\n    if *k == KeyCode::RIGHTSHIFT {\n      return true;"),
 ("x13d-output-alias-takes-first-definition", ["C13"], "src/fancy_layout_interpreting.rs",
  "              let keys = &self.it.alias_found_mappings[i][self.tuple[i]].from.keys;\n              res.extend(keys);\n            }\n          }\n        }\n      }\n    }\n    \n    Ok(res)",
  "              let keys = &self.it.alias_found_mappings[i][0].from.keys;\n              res.extend(keys);\n            }\n          }\n        }\n      }\n    }\n    \n    Ok(res)"),
 ("x13e-repeat-only-needs-same-order", ["C13"], "src/fancy_layout_interpreting.rs", "      res.sort();\n      res.push(*keys.last().unwrap());", "      res.push(*keys.last().unwrap());"),
 ("x14a-f6-reverted-for-to", ["C14"], "src/fancy_layout_interpreting.rs", "    if let Some(k) = first_duplicate(&sm.to) {", "    if let Some(k) = first_duplicate(&sm.to).filter(|_| false) {"),
 ("x14b-float-delay-unwrapped", ["C14"], "src/layout_parsing_formatting.rs", "    Ok(n.as_i64().ok_or(format!(\"Invalid delay_ms number: {}\", v))? as i32)", "    Ok(n.as_i64().unwrap() as i32)"),
 ("x15a-empty-chord-rejected-on-load", ["C15"], "src/layout_parsing_formatting.rs",
  "fn parse_single_to_array(to_elems: &[Value]) -> Result<SingleToKeys, String> {\n  if to_elems.len() == 0 {\n    Ok(SingleToKeys {\n      initial: vec![],\n      terminal: SingleTerminalToKey::Null\n    })",
  "fn parse_single_to_array(to_elems: &[Value]) -> Result<SingleToKeys, String> {\n  if to_elems.len() == 0 {\n    Err(\"empty key list\".to_owned())"),
 ("x15b-key-name-written-differently", ["C15"], "src/key_codes.rs", "  KBD_LCD_MENU5 = 700,", "  #[serde(rename = \"KBD_LCD_MENU_5\")]\n  KBD_LCD_MENU5 = 700,"),
 ("x16a-name-not-reset-at-entry-start", ["C16"], "src/keyboard_listing.rs", "      *working_sysfs_path = None;\n      *working_name = None;\n      *working_ev_mask = None;\n    }\n    else if line.starts_with(\"S: Sysfs=\") {\n      let new_sysfs_path = line[9..].to_string();\n      *working_sysfs_path = Some(new_sysfs_path);\n    }\n    else if line.starts_with(\"N: Name=\\\"\") {\n      let mut name = line[9..].to_string();\n      name = name.trim_end().to_string();\n      if name.ends_with('\"') {\n        name = name[..name.len()-1].to_string();\n      }\n      *working_name = Some(name);\n    }\n    else if line.starts_with(\"B: EV=\") {\n      *working_ev_mask = Some(line[6..].to_string());\n    }\n    else if line.starts_with(\"B: KEY=\") {\n      let mut num_keys = 0;\n      for c in line[7..].chars() {\n        num_keys += match c {\n          '0' => 0, '1' => 1, '2' => 1, '3' => 2,\n          '4' => 1, '5' => 2, '6' => 2, '7' => 3,\n          '8' => 1, '9' => 2, 'a' => 2, 'b' => 3,\n          'c' => 2, 'd' => 3, 'e' => 3, 'f' => 4,\n          _ => 0\n        }\n      }\n      \n      let key_set = parse_mask_hex(&line[7..]).unwrap_or(HashSet::new());\n      \n      let ev_set = match &*working_ev_mask {\n        None => HashSet::new(),\n        Some(mask_hex) => {\n          parse_mask_hex(mask_hex.as_str()).unwrap_or(HashSet::new())\n        }\n      };\n      \n      let num_normal_keys = \n          (key_set.contains(&(KeyCode::A as i32)) as i32)\n        + (key_set.contains(&(KeyCode::B as i32)) as i32)\n        + (key_set.contains(&(KeyCode::C as i32)) as i32)\n        + (key_set.contains(&(KeyCode::SPACE as i32)) as i32)\n        + (key_set.contains(&(KeyCode::LEFTSHIFT as i32)) as i32)\n        + (key_set.contains(&(KeyCode::RIGHTSHIFT as i32)) as i32)\n        + (key_set.contains(&(KeyCode::BACKSPACE as i32)) as i32)\n        + (key_set.contains(&(KeyCode::ENTER as i32)) as i32)\n        + (key_set.contains(&(KeyCode::ESC as i32)) as i32)\n        + (key_set.contains(&(KeyCode::PAUSE as i32)) as i32)\n        ;\n      \n      let name = match &*working_name {\n        None => \"\".to_string(),\n        Some(name) => name.clone()\n      };\n      \n      let has_scroll_down = key_set.contains(&(KeyCode::SCROLLDOWN as i32));\n      let lacks_leds = !ev_set.contains(&0x11);\n      let has_mouse_in_name = name.contains(\"Mouse\");\n      let is_cros_ec = name == \"cros_ec\";\n      \n      let mousey = (has_scroll_down as i32) + (lacks_leds as i32) + (has_mouse_in_name as i32) >= 2;\n      \n      let has_keyboard_in_name = name.to_lowercase().contains(\"keyboard\");\n      \n      let is_keyboard",
  None),
 ("x16b-second-extractor-threshold-differs", ["C16"], "src/keyboard_listing.rs", "      let is_keyboard = num_keys >= 20 && num_normal_keys >= 3", "      let is_keyboard = num_keys >= 20 && num_normal_keys >= 4"),
 ("x16c-virtual-check-dropped-in-dev-file-route", ["C16"], "src/keyboard_listing.rs", "    let p = dev.sysfs_path;\n    if !p.starts_with(\"/devices/virtual/input/\") {\n      match dev_path_for_sysfs_name(&p)? {\n        None => (),\n        Some(dev_path) => {\n          res.push(ExtractedInputDevice {", "    let p = dev.sysfs_path;\n    if true {\n      match dev_path_for_sysfs_name(&p)? {\n        None => (),\n        Some(dev_path) => {\n          res.push(ExtractedInputDevice {"),
 ("x16d-exclusion-on-path-in-dev-file-route", ["C16"], RL, "    let excluded = wilds.iter().any(|w| w.matches(&d.name));\n    PossiblyExcludedInputDevice {", "    let excluded = wilds.iter().any(|w| w.matches(&d.dev_path.to_string_lossy()));\n    PossiblyExcludedInputDevice {"),
 ("x16e-virtual-prefix-too-wide", ["C16"], "src/keyboard_listing.rs", "    let p = dev.sysfs_path;\n    if !p.starts_with(\"/devices/virtual/input/\") {\n      match dev_path_for_sysfs_name(&p)? {\n        None => (),\n        Some(dev_path) => {\n          res.push(ExtractedKeyboard {", "    let p = dev.sysfs_path;\n    if !p.starts_with(\"/devices/virtual/\") {\n      match dev_path_for_sysfs_name(&p)? {\n        None => (),\n        Some(dev_path) => {\n          res.push(ExtractedKeyboard {"),
 ("x17a-dollar-not-doubled", ["C17"], "src/udev_utils.rs", "    '$' => \"$$\".to_owned(),\n", ""),
 ("x17b-tab-written-raw", ["C17"], "src/udev_utils.rs", "    '\\t' => \"\\\\t\".to_owned(),", "    '\\t' => \"\\t\".to_owned(),"),
 ("x17c-c1-controls-as-x-escape", ["C17"], "src/udev_utils.rs", "        if i < 128 {", "        if i < 256 {"),
 ("x18a-code-truncated-to-8-bits", ["C18"], "src/dev_input_rw.rs", "      let code = (*k) as u16;", "      let code = (*k) as u8 as u16;"),
 ("x18b-no-syn-for-empty-batch", ["C18"], "src/dev_input_rw.rs", "    send_type_code_value(0, 0, 0);\n", "    if !evs.is_empty() { send_type_code_value(0, 0, 0); }\n"),
 ("x18c-reader-accepts-autorepeat", ["C18"], "src/dev_input_rw.rs", "      if type_ == 1 && (value == 0 || value == 1) {\n        match FromPrimitive::from_u16(code) {\n          Some(k) => match value {\n            1 => return Ok(Event::Pressed(k)),", "      if type_ == 1 && (value == 0 || value == 1 || value == 2) {\n        match FromPrimitive::from_u16(code) {\n          Some(k) => match value {\n            1 | 2 => return Ok(Event::Pressed(k)),"),
 ("x18d-value-field-16-bit", ["C18"], "src/dev_input_rw.rs", "      input_event_data.add_i32(value);", "      input_event_data.add_u16(value as u16);\n      input_event_data.add_u16(0);"),
]


def sh(cmd, cwd=None, env=None):
    r = subprocess.run(cmd, cwd=cwd, env=env, stdout=subprocess.PIPE, stderr=subprocess.STDOUT, text=True)
    return r.returncode, r.stdout


def main():
    sel = sys.argv[1:]
    rc, out = sh(["git", "-C", REPO, "status", "--porcelain"])
    if out.strip():
        print("refusing: /repo has uncommitted changes"); sys.exit(2)
    respath = os.path.join(ROOT, "seeded", "self_mutants_result.json")
    os.makedirs(os.path.dirname(respath), exist_ok=True)
    results = json.load(open(respath)) if os.path.exists(respath) else {}
    for name, props, f, old, new in M:
        if sel and not any(s in name for s in sel):
            continue
        path = os.path.join(REPO, f)
        src = open(path).read()
        if new is None:
            # special case x16a: drop the name reset of the first extractor only
            old2 = "      *working_sysfs_path = None;\n      *working_name = None;\n      *working_ev_mask = None;"
            i = src.find(old2)
            mutated = src[:i] + "      *working_sysfs_path = None;\n      *working_ev_mask = None;" + src[i + len(old2):]
        else:
            if src.count(old) != 1:
                print(name, "SKIP: pattern occurs", src.count(old), "times"); results[name] = {"error": "pattern count %d" % src.count(old)}; continue
            mutated = src.replace(old, new)
        open(path, "w").write(mutated)
        row = {"expected": props}
        try:
            rc, out = sh(["cargo", "test", "--offline"], cwd=REPO, env=dict(os.environ, CARGO_NET_OFFLINE="true"))
            m = re.search(r"test result: (\w+)\. (\d+) passed; (\d+) failed", out)
            row["unit_tests"] = m.group(0) if m else ("build failed" if "error" in out else out[-200:])
            row["survives_unit_tests"] = bool(m and m.group(1) == "ok")
            for pid in props:
                t0 = time.time()
                rc, out = sh([os.path.join(ROOT, "check"), pid, "--tier", "quick"], cwd=ROOT)
                first = [l for l in out.splitlines() if l.startswith(("violation:", "INCONCLUSIVE"))][:1]
                row[pid] = {"exit": rc, "wall_s": round(time.time() - t0, 1), "first": (first[0][:300] if first else "")}
        finally:
            open(path, "w").write(src)
        results[name] = row
        print(name, {k: (v["exit"] if isinstance(v, dict) else v) for k, v in row.items() if k not in ("expected",)}, flush=True)
        json.dump(results, open(respath, "w"), indent=1)
    sh(["git", "-C", REPO, "checkout", "--", "."])


if __name__ == "__main__":
    main()
