#!/usr/bin/env python3
# Runs the listed checks at several seeds and derives antecedent floors (one tenth of the
# smallest count observed) -> lib/floors.json. Usage: measure_floors.py quick 1,2,3,4 [IDs...]
import json, os, subprocess, sys
ROOT = os.path.dirname(os.path.dirname(os.path.abspath(__file__)))
sys.path.insert(0, os.path.join(ROOT, "lib"))
from props import ANTECEDENTS
tier = sys.argv[1]
seeds = [int(x) for x in sys.argv[2].split(",")]
ids = sys.argv[3:] or sorted(ANTECEDENTS)
path = os.path.join(ROOT, "lib", "floors.json")
floors = json.load(open(path)) if os.path.exists(path) else {}
for pid in ids:
    mins = {}
    for s in seeds:
        e = dict(os.environ); e["VERIF_SEED"] = str(s)
        r = subprocess.run([os.path.join(ROOT, "check"), pid, "--tier", tier], env=e, stdout=subprocess.PIPE, stderr=subprocess.STDOUT, text=True)
        last = [l for l in r.stdout.splitlines() if l.startswith(("OK", "VIOLATION", "INCONCLUSIVE"))]
        print(pid, "seed", s, "exit", r.returncode, last[-1][:160] if last else r.stdout[-200:], flush=True)
        ev = json.load(open(os.path.join(ROOT, "evidence", pid + ".json")))
        c = ev["coverage"]["counters"]
        for name in ANTECEDENTS[pid]:
            v = ev["coverage"]["distinct_nontrivial"] if name == "distinct_nontrivial" else c.get(name, 0)
            mins[name] = min(mins.get(name, v), v)
    floors.setdefault(pid, {})[tier] = {k: max(1, v // 10) for k, v in mins.items()}
    print(pid, "min over seeds:", mins, flush=True)
    json.dump(floors, open(path, "w"), indent=1, sort_keys=True)
