#!/usr/bin/env python3
"""seeded_keep.py <out-dir e.g. /tmp/seeded-out/C01/a> [extra check IDs...]
Confirms the change in a scratch worktree, runs the target property's quick check (plus extra IDs) with the patch applied
to /repo (undone afterwards) and, if confirmed, keeps it as /verif/seeded/<ID><variant>/ with an augmented meta.json."""
import json, os, shutil, sys
ROOT = os.path.dirname(os.path.dirname(os.path.abspath(__file__)))
sys.path.insert(0, os.path.join(ROOT, "lib"))
import seeded_eval
d = os.path.abspath(sys.argv[1])
meta = json.load(open(os.path.join(d, "meta.json")))
pid, var = meta["property"], meta.get("variant", os.path.basename(d))
conf = seeded_eval.confirm(d)
ids = [pid] + [x for x in sys.argv[2:] if x != pid]
res = seeded_eval.run(d, ids) if conf["confirmed"] else {}
name = "%s%s" % (pid, var)
print(name, "confirmed" if conf["confirmed"] else "NOT CONFIRMED", {k: v["exit"] for k, v in res.items()}, flush=True)
if conf["confirmed"]:
    dst = os.path.join(ROOT, "seeded", name)
    os.makedirs(dst, exist_ok=True)
    for f in ("patch.diff", "demo.diff"):
        shutil.copyfile(os.path.join(d, f), os.path.join(dst, f))
    meta["breaks_property"] = pid
    meta["confirmed_in_scratch_worktree"] = {k: conf[k] for k in ("demo_alone", "patch_alone", "patch_plus_demo")}
    meta["what_was_run"] = ["git apply patch.diff in a scratch worktree of /repo; cargo test --offline (49 pass); git apply demo.diff; cargo test --offline <demo> (fails); demo alone on HEAD (passes)",
                            "git -C /repo apply patch.diff; ./check %s --tier quick; git -C /repo checkout -- ." % " / ".join(ids)]
    meta["check_results"] = res
    meta["detected_by"] = [k for k, v in res.items() if v["exit"] == 1]
    json.dump(meta, open(os.path.join(dst, "meta.json"), "w"), indent=1)
else:
    print(json.dumps(conf, indent=1))
